"""Determinism self-test: same seed => same event digest, in-process twice, across worker counts,
and in a fresh interpreter under a different PYTHONHASHSEED.  A mismatch is a harness error."""
from __future__ import annotations

import os
import subprocess
import sys

from dst.core import env, prng, runner

PROPS = ["C01", "C02", "C04", "C05", "C06", "C12", "C13", "C14", "C15", "C16", "C17", "C18", "C19"]


def available():
    out = []
    for p in PROPS:
        if os.path.exists(os.path.join(runner.ROOT, "dst", "checks", f"{p.lower()}.py")):
            out.append(p)
    return out


def digest_of(prop, tier, runs, workers, seed):
    mod = runner.load_check(prop)
    chunk = max(1, min(mod.CHUNK.get(tier, 50), max(1, runs // 4)))
    merged, _ = runner.batch(prop, tier, seed, runs, chunk, workers, None)
    return merged["digest"], merged["evals"]


def main(args) -> int:
    env.setup()
    if getattr(args, "runs", None) and os.environ.get("VERIF_SELFTEST_CHILD"):
        prop = os.environ["VERIF_SELFTEST_CHILD"]
        d, n = digest_of(prop, args.tier, args.runs, args.workers or 1, prng.verif_seed())
        print(f"DIGEST {prop} {d} {n}")
        return 0
    seed = prng.verif_seed()
    bad = 0
    for prop in available():
        mod = runner.load_check(prop)
        runs = args.runs or mod.SELFTEST_RUNS if hasattr(mod, "SELFTEST_RUNS") else (args.runs or max(8, min(64, mod.RUNS["quick"] // 20)))
        d1, n1 = digest_of(prop, args.tier, runs, 1, seed)
        d2, n2 = digest_of(prop, args.tier, runs, 1, seed)
        d3, n3 = digest_of(prop, args.tier, runs, 5, seed)
        envv = dict(os.environ, PYTHONHASHSEED="424242", VERIF_SELFTEST_CHILD=prop)
        p = subprocess.run(
            [sys.executable, "-B", os.path.join(runner.ROOT, "dst", "main.py"), "selftest", "--tier", args.tier, "--runs", str(runs), "--workers", "3"],
            capture_output=True, text=True, env=envv, timeout=1200,
        )
        d4 = next((line.split()[2] for line in p.stdout.splitlines() if line.startswith("DIGEST")), "child-failed:" + p.stderr[-200:])
        ok = d1 == d2 == d3 == d4
        print(f"SELFTEST {prop} runs={runs} evaluations={n1} in-process-twice={'ok' if d1 == d2 else 'MISMATCH'} "
              f"workers(1 vs 5)={'ok' if d1 == d3 else 'MISMATCH'} fresh-interpreter-other-hashseed={'ok' if d1 == d4 else 'MISMATCH'} digest={d1[:12]}")
        if not ok:
            bad += 1
    print(f"SELFTEST {'PASSED' if not bad else 'FAILED'} properties={len(available())} mismatches={bad}")
    return 2 if bad else 0
