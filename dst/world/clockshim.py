"""Wall-clock seam: make a module's reads of the wall clock return virtual time.

`han.meter_connection` does `import datetime` and calls `datetime.datetime.utcnow()`.  The shim
replaces that module attribute (and, should a future tree read the clock through another common
name, that name) with objects whose "now" is EPOCH + loop.time() + offset.  `offset` is the
simulator's wall-clock-jump fault (C17 safety monitors only).
"""
from __future__ import annotations

import datetime as _real_datetime
import time as _real_time
import types

EPOCH = _real_datetime.datetime(2030, 1, 1, 0, 0, 0)
EPOCH_TS = 1893456000.0


class Clock:
    def __init__(self, loop) -> None:
        self.loop = loop
        self.offset = 0.0
        self.reads = 0
        self.dst = None  # (virtual instant, seconds): from that instant on LOCAL time is shifted (daylight-saving switch)

    def seconds(self) -> float:
        self.reads += 1
        return self.loop.time() + self.offset

    def local_seconds(self) -> float:
        """Naive local time, as datetime.now() without a time zone gives it: UTC + zone offset, and the zone offset
        changes at a daylight-saving switch while UTC (utcnow(), now(timezone.utc), time.time()) runs on."""
        t = self.seconds()
        if self.dst is not None and self.loop.time() >= self.dst[0]:
            t += self.dst[1]
        return t


class _AnyDateTime(type):
    """isinstance(x, <shimmed datetime>) stays true for ordinary datetime objects (made by code that is not shimmed)."""

    def __instancecheck__(cls, obj):
        return isinstance(obj, _real_datetime.datetime)

    def __subclasscheck__(cls, sub):
        return issubclass(sub, _real_datetime.datetime)


def _datetime_class(clock: Clock):
    class VDateTime(_real_datetime.datetime, metaclass=_AnyDateTime):
        @classmethod
        def utcnow(cls):
            return EPOCH + _real_datetime.timedelta(seconds=clock.seconds())

        @classmethod
        def now(cls, tz=None):
            if tz is not None:
                base = EPOCH + _real_datetime.timedelta(seconds=clock.seconds())
                return base.replace(tzinfo=_real_datetime.timezone.utc).astimezone(tz)
            return EPOCH + _real_datetime.timedelta(seconds=clock.local_seconds())

    return VDateTime


def install(module, clock: Clock):
    """Patch the clock names `module` uses. Returns (undo function, list of patched names)."""
    saved = {}
    patched = []
    vdt = _datetime_class(clock)

    def put(name, value):
        saved[name] = getattr(module, name)
        setattr(module, name, value)
        patched.append(name)

    cur = getattr(module, "datetime", None)
    if cur is _real_datetime:
        shim = types.ModuleType("datetime")
        shim.__dict__.update({k: v for k, v in vars(_real_datetime).items() if not k.startswith("__")})
        shim.datetime = vdt
        put("datetime", shim)
    elif cur is _real_datetime.datetime:
        put("datetime", vdt)
    cur = getattr(module, "time", None)
    if cur is _real_time:
        shim = types.ModuleType("time")
        shim.__dict__.update({k: v for k, v in vars(_real_time).items() if not k.startswith("__")})
        shim.time = lambda: EPOCH_TS + clock.seconds()
        shim.monotonic = lambda: clock.seconds()
        shim.perf_counter = lambda: clock.seconds()
        put("time", shim)
    elif cur is _real_time.time:
        put("time", lambda: EPOCH_TS + clock.seconds())
    for name in ("monotonic", "perf_counter"):
        if getattr(module, name, None) is getattr(_real_time, name):
            put(name, lambda: clock.seconds())
    if getattr(module, "utcnow", None) is not None and callable(getattr(module, "utcnow")):
        pass  # unknown helper - left alone; the C18 breaker oracle then falls back (see DESIGN 3.2)

    def undo():
        for name, value in saved.items():
            setattr(module, name, value)

    return undo, patched
