#!/venv/bin/python
"""Regenerate MANIFEST.json from the check modules that exist (single source of truth)."""
import json, os, sys
ROOT = os.path.dirname(os.path.dirname(os.path.abspath(__file__)))
sys.path.insert(0, ROOT)
os.environ.setdefault("VERIF_REPO", "/repo")
from dst.core import env
env.setup()
import importlib

CLAIMED = ["C01", "C02", "C04", "C05", "C06", "C12", "C13", "C14", "C15", "C16", "C17", "C18", "C19"]
NA = {
    "C03": "pure function of (register, octet) / of a byte string: no schedule, clock, fault, crash point or call history for a simulator to control; the property's own decision procedure is complete enumeration of 2^24 pairs, which is bounded enumeration, not deterministic simulation (DESIGN.md section 5)",
    "C07": "aidon.decode_frame_content / decode_notification_body are pure functions bytes -> dict; quantifier is inputs only; nothing to schedule or fault (DESIGN.md section 5)",
    "C08": "kaifa decoders are pure functions bytes -> dict; quantifier is inputs only (DESIGN.md section 5)",
    "C09": "kamstrup decoders are pure functions bytes -> dict; quantifier is inputs only (DESIGN.md section 5)",
    "C10": "the COSEM date-time decode is a pure function of 12 octets and their syntactic position; inputs only (DESIGN.md section 5)",
    "C11": "P1 parsing and unit conversion are pure functions of the text; the AutoDecoder clause concerns one call, not a history (DESIGN.md section 5)",
    "C20": "OBIS parse/format/equality are pure functions of a string or tuple; inputs only (DESIGN.md section 5)",
}
checks = []
pending = []
for p in CLAIMED:
    path = os.path.join(ROOT, "dst", "checks", f"{p.lower()}.py")
    if not os.path.exists(path):
        pending.append(p)
        continue
    mod = importlib.import_module(f"dst.checks.{p.lower()}")
    checks.append({
        "property_id": p,
        "quick_cmd": f"./check {p} --tier quick",
        "thorough_cmd": f"./check {p} --tier thorough",
        "evidence_file": f"/verif/evidence/{p}.json",
        "replay_cmd_template": f"./check {p} --replay {{path}}",
        "engine": "dst",
        "level_claimed": {"category": mod.LEVEL, "text": mod.LEVEL_TEXT, "design_ref": mod.DESIGN_REF},
        "level_note": "; ".join(mod.ASSUMPTIONS),
        "technique": mod.TECHNIQUE,
    })
manifest = {
    "version": 1,
    "setup_cmd": "./check setup",
    "hooks": {
        "guard": "AMSHAN_VERIF",
        "enable": "no source hook exists: every seam (event loop, timers, wall clock, transports, connection factory, bytes arguments) is reached from outside; checks export AMSHAN_VERIF=1 and import han from /repo's working tree (VERIF_REPO overrides for audits)",
        "baseline_off_cmd": "cd /repo && /venv/bin/python -m pytest -ra -q -p no:cacheprovider --timeout=900",
        "source_commits": [],
        "add_only": True,
    },
    "engines": [{"name": "dst", "path": "/verif/dst", "serves_properties": [c["property_id"] for c in checks], "kind_free_text": "custom deterministic simulator: seeded PRNG per run, virtual-time asyncio loop, fake transports/factory/meter/line, fault injection, scenario minimisation, replay files"}],
    "checks": checks,
    "notes": ("Claimed but check not built yet (in progress): " + ", ".join(pending) + ". ") if pending else "All 13 applicable properties have checks; see DESIGN.md.",
    "not_applicable": [{"property_id": k, "reason": v} for k, v in NA.items()],
}
json.dump(manifest, open(os.path.join(ROOT, "MANIFEST.json"), "w"), indent=1)
print("checks:", [c["property_id"] for c in checks], "pending:", pending)
