"""C19 - reader memory stays bounded on endless streams.

Rig R: MiB-scale streams of ten patterns (endless flag fill, never-ending frames/readouts,
identification lines without end, start character without line end, clean traffic, random) are
fed in fixed chunk sizes; the deep size of the reader object is sampled between calls and must stay
below a constant plus twice the size of the last chunk, however much was fed before.
"""
from __future__ import annotations

import random

from dst.core import deepsize, prng
from dst.world import hdlc_gen, hdlc_ref, p1_gen, reader_rig

PROP = "C19"
LEVEL = "exploration"
TECHNIQUE = "deterministic simulation of endless/never-terminating line patterns (hours of simulated line time) through fixed-size transport chunks into the real readers; oracle = deep size (gc traversal) of the reader sampled between calls <= constant + 2 x last chunk"
DESIGN_REF = "DESIGN.md section 4.13"
LEVEL_TEXT = (
    "Ten stream patterns x chunk sizes 1..65536 x four HDLC configurations / the P1 reader, 1-2 MiB per run (quick) or 16 MiB (thorough); "
    "any retention growing with >= 0.5 % of the fed octets crosses the bound. The bound is a generic object-graph measure and does not "
    "name attributes. Sampling of patterns and sizes, not proof."
)
RUNS = {"quick": 488, "thorough": 2448}
CHUNK = {"quick": 2, "thorough": 2}
BUDGET_S = {"quick": 120, "thorough": 3000}
SELFTEST_RUNS = 12
RULE = (
    "run = (reader, configuration, stream pattern, pattern seed, chunk size, total octets); the deep size of the reader is sampled after "
    "every k-th read() call (about 200 samples per run). Non-trivial = the stream is at least 8 times the bound constant (>= 512 KiB); "
    "distinct = distinct scenario digest."
)
STATE_MEASURE = "distinct (reader, configuration, pattern, chunk size) tuples"
REAL = ["han.hdlc.HdlcFrameReader", "han.dlde.ModeDReader"]
STUB = ["line pattern generators", "transport with fixed chunk size"]
ASSUMPTIONS = [
    "bound = 64 KiB + 2 x len(last chunk): 'a few maximum-size messages' (8 KiB P1 guard, 2047-octet frames, bytearray over-allocation) with margin; factor 2 covers the copy made when a buffer is re-sliced",
    "objects returned to the caller are not retained by the reader and are not counted",
]
MUST_FIRE = {"quick": ["pattern_all_flags", "pattern_slash_no_lf", "pattern_ident_no_end", "pattern_never_ending_frame", "pattern_open_frame_then_flags", "pattern_open_frame_then_escapes", "pattern_flag_escape_alternating", "pattern_p1_soup", "pattern_hdlc_soup", "pattern_octet_flood", "pattern_token_flood"], "thorough": ["pattern_all_flags", "pattern_slash_no_lf", "pattern_ident_no_end", "pattern_never_ending_frame"]}

P1_TOKENS = [b"/ABC5xyz\r\n", b"/KAM5\r\n", b"\r\n", b"\n", b"1-0:1.8.0(000123.456*kWh)\r\n", b"\xff\xfe\r\n", b"1-0:1.7.0(\x80)\r\n", b"!\r\n", b"!1A2B\r\n", b"!zz\r\n", b"!!\r\n", b"! \r\n",
             b"/", b"/junk", b"x" * 40, b"/ABC5!x\r\n", b"\r", b"(", b"0-0:96.1.1(4B41)\n", b"!", b" \t\r\n", b"\x00\r\n", b"~}\r\n"]
CONST = 64 * 1024
HDLC_PATTERNS = ["all_flags", "flag_junk", "valid_frames", "never_ending_frame", "random", "random_ascii", "escape_flood", "flag_escape_alternating", "open_frame_then_flags", "open_frame_then_escapes", "open_frame_then_flag_escape", "valid_frames_single_flag", "invalid_frames_single_flag", "aborted_frames", "junk_frames_varying", "valid_frame_then_ff", "valid_frame_then_noflag_noise"]
P1_PATTERNS = ["ident_no_end", "slash_no_lf", "ident_endless_lines", "valid_readouts", "random", "random_ascii", "ident_lines_repeated", "ident_endless_blank_lines", "ident_endless_lf", "lf_forever", "cr_forever", "ident_endless_bang_less_text", "ident_then_nonascii_line", "valid_readouts_varying_ident", "ident_lines_varying", "varying_ident_no_end"]
CHUNKS = [1, 64, 1024, 65536]
# flag, escape and their escaped forms; XON / XOFF (the control characters of RFC 1662's async map, also with parity bit);
# NUL, DEL, 0xFF, 0x80; CR, LF, '/', '!', blank
LINK_OCTETS = [0x7E, 0x7D, 0x5E, 0x5D, 0x11, 0x13, 0x91, 0x93, 0x00, 0x7F, 0xFF, 0x80, 0x0D, 0x0A, 0x2F, 0x21, 0x20]


def gen(rng, tier, index):
    # systematic over (reader/config x pattern), seeded chunk size and content
    combos = [("hdlc", list(cfg), p) for cfg in hdlc_gen.CONFIGS for p in HDLC_PATTERNS] + [("p1", None, p) for p in P1_PATTERNS]
    if index >= 2 * len(combos):
        # beyond the systematic part the run index enumerates three open-ended families:
        #  soups  - a short seeded cycle of protocol tokens repeated for ever (retention paths that need a sequence of events)
        #  octet floods - an opened HDLC frame followed by one octet value for ever (all 256 values x stuffing on/off)
        #  token floods - a P1 identification line followed by one token for ever
        j = index - 2 * len(combos)
        fam, n = j % 4, j // 4
        total = (1 << 19) if tier == "quick" else (1 << 21)
        chunk = rng.choice([64, 1024, 1024, 8192, rng.randint(2, 3000)])
        if fam == 0:
            reader, cfg, pattern = "hdlc", list(hdlc_gen.CONFIGS[n % 4]), "hdlc_soup"
        elif fam == 1:
            reader, cfg, pattern = "p1", None, "p1_soup"
        elif fam == 2:
            # quick: first the octets that mean something on an asynchronous HDLC link or a P1 line, then a stride through
            # the rest; thorough: all 256 values in order
            x = (LINK_OCTETS[n] if n < len(LINK_OCTETS) else ((n - len(LINK_OCTETS)) * 37) % 256) if tier == "quick" else n % 256
            reader, cfg, pattern = "hdlc", [bool((n // 256) % 2 == 0), bool(n % 2)], f"octet_flood:{x}"
        else:
            reader, cfg, pattern = "p1", None, f"token_flood:{n % len(P1_TOKENS)}"
        yield {"reader": reader, "cfg": cfg, "pattern": pattern, "content_seed": rng.getrandbits(32), "chunk": chunk, "total": total}
        return
    reader, cfg, pattern = combos[index % len(combos)]
    chunk = rng.choice(CHUNKS + [rng.randint(2, 70000)])
    mib = 1 << 20
    total = (rng.choice([1, 2]) if tier == "quick" else 16) * mib
    if chunk == 1:
        total = min(total, mib if tier == "quick" else 4 * mib)
    yield {"reader": reader, "cfg": cfg, "pattern": pattern, "content_seed": rng.getrandbits(32), "chunk": chunk, "total": total}


def block(sc) -> bytes:
    """The repeating unit of the stream - a pure function of the scenario."""
    r = random.Random(sc["content_seed"])
    p = sc["pattern"]
    stuffing = bool(sc["cfg"] and sc["cfg"][0])
    if p.startswith("octet_flood:"):
        return bytes([int(p.split(":")[1])]) * 4096
    if p.startswith("token_flood:"):
        tok = P1_TOKENS[int(p.split(":")[1])]
        return tok * max(1, 4096 // len(tok))
    if p == "p1_soup":
        tokens = P1_TOKENS + [bytes(r.randrange(0x20, 0x7F) for _ in range(30)) + b"\r\n"]
        cycle = b"".join(r.choice(tokens) for _ in range(r.randint(2, 4)))
        return cycle * max(1, 8192 // max(1, len(cycle)))
    if p == "hdlc_soup":
        good = hdlc_gen.build(hdlc_gen.frame_fields(r, small=True))
        tokens = [b"\x7e", b"\x7e\x7e", b"\x7d", b"\x7d\x7e", b"\x7d\x5e", b"\xa0\x08\x03\x21\x13", b"\xa7\xff\x03\x21\x13\x12\x34", b"\x01\x02", good, hdlc_ref.stuff(good), good[:7],
                  b"\x00" * 30, r.randbytes(12).replace(b"\x7e", b"\x11"), b"\xa0\x0a\x02\x04\x06", b"\x7e" + good + b"\x7e", b"\x7e\x01\x02"]
        cycle = b"".join(r.choice(tokens) for _ in range(r.randint(2, 4)))
        return cycle * max(1, 8192 // max(1, len(cycle)))
    if p == "all_flags":
        return b"\x7e" * 4096
    if p == "flag_junk":
        return b"".join(b"\x7e" + r.randbytes(r.randint(0, 5)).replace(b"\x7e", b"\x00") for _ in range(600))
    if p == "valid_frames":
        out = bytearray()
        for seq in range(40):
            it = hdlc_gen.clean_frame(r, stuffing, bool(sc["cfg"][1]), seq=seq)
            o = hdlc_gen.build(it)
            out += b"\x7e" + (hdlc_ref.stuff(o) if stuffing else o) + b"\x7e"
        return bytes(out)
    if p in ("valid_frames_single_flag", "invalid_frames_single_flag"):
        out = bytearray()
        for seq in range(40):
            it = hdlc_gen.clean_frame(r, stuffing, bool(sc["cfg"][1]), seq=seq, small=True)
            o = bytearray(hdlc_gen.build(it))
            if p.startswith("invalid"):
                o[-1] ^= 0x55
                if not stuffing and 0x7E in o:
                    continue
            out += (hdlc_ref.stuff(bytes(o)) if stuffing else bytes(o)) + b"\x7e"  # the closing flag is the next opening flag
        return bytes(out)
    if p == "valid_frame_then_ff":
        return b"\xff" * 4096
    if p == "valid_frame_then_noflag_noise":
        return r.randbytes(8192).replace(b"\x7e", b"\x33").replace(b"\x7d", b"\x34")
    if p == "junk_frames_varying":  # complete (invalid) frames whose octets never repeat
        return b"\x7e\xa0\x10\x03\x21\x13\x12\x34@@@@@@@@\x7e"
    if p == "aborted_frames":
        return (b"\x7e\xa0\x20\x03\x21\x13\x12\x34\x01\x02\x03\x7d") * 340
    if p == "never_ending_frame":
        return r.randbytes(8192).replace(b"\x7e", b"\x55")
    if p == "escape_flood":
        return (b"\x7d" * 7 + b"\x41") * 512
    if p == "flag_escape_alternating":
        return b"\x7e\x7d" * 2048
    if p == "open_frame_then_flags":
        return b"\x7e" * 4096
    if p == "open_frame_then_escapes":
        return b"\x7d" * 4096
    if p == "open_frame_then_flag_escape":
        return b"\x7d\x7e" * 2048
    if p == "random":
        return r.randbytes(16384)
    if p == "random_ascii":
        return bytes(r.choice(b"/!\r\n() .:*0123456789ABCDEFkWhabcxyz~}") for _ in range(16384))
    if p == "ident_no_end":
        return b"/ABC5xyz\r\n\r\n1-0:1.8.0(000123.456*kWh)\r\n" * 100
    if p == "ident_lines_repeated":
        return b"/ABC5xyz\r\n" * 400
    if p == "valid_readouts_varying_ident":  # every readout comes from "another meter": identification and values never repeat
        from dst.world import p1_ref

        return b"/ABC5@@@@@@@@\r\n\r\n1-0:1.8.0(@@@@@@@@*kWh)\r\n!\r\n"
    if p == "ident_lines_varying":
        return b"/ABC5@@@@@@@@\r\n"
    if p == "varying_ident_no_end":
        return b"/XYZ5@@@@@@@@\r\n" + b"1-0:1.8.0(000123.456*kWh)\r\n" * 330
    if p == "ident_then_nonascii_line":
        return b"/ABC5xyz\r\n\xff\xfe\x80\r\n" * 400
    if p == "ident_endless_blank_lines":
        return b"\r\n" * 4096
    if p == "ident_endless_lf":
        return b"\n" * 8192
    if p == "lf_forever":
        return b"\n" * 8192
    if p == "cr_forever":
        return b"\r" * 8192
    if p == "ident_endless_bang_less_text":
        return bytes(r.choice(b" \t\r\n\x0b\x0cabc") for _ in range(8192))
    if p == "slash_no_lf":
        return b"/" + bytes(r.randrange(0x20, 0x7F) for _ in range(8000)).replace(b"/", b"_")
    if p == "ident_endless_lines":
        return b"".join(p1_gen.data_line(r).encode() + b"\r\n" for _ in range(200))
    if p == "valid_readouts":
        return b"".join(p1_gen.build(p1_gen.readout_spec(r, i, "typical")) for i in range(8))
    raise ValueError(p)


def prefix(sc) -> bytes:
    if sc["pattern"] == "never_ending_frame":
        return b"\x7e"
    if sc["pattern"] == "open_frame_then_flags":
        # an opened frame that is already longer than its length field (8) says: no flag can complete it
        return b"\x7e\xa0\x08\x03\x21\x13\x12\x34\x01\x02\x03\x04\x05"
    if sc["pattern"].startswith("open_frame_then"):
        # an opened frame whose header is complete and whose length field (0x7FF) is never reached
        return b"\x7e\xa7\xff\x03\x21\x13\x12\x34\x01\x02"
    if sc["pattern"] in ("ident_endless_lines", "ident_endless_blank_lines", "ident_endless_lf", "ident_endless_bang_less_text"):
        return b"/ABC5xyz\r\n"
    if sc["pattern"].startswith("valid_frame_then"):
        good = hdlc_gen.build({"t": "frame", "dest": "03", "src": "21", "ctl": 0x13, "fmt": 0xA, "seg": False, "info": "0102030405060708"})
        return b"\x7e" + (hdlc_ref.stuff(good) if sc["cfg"][0] else good)  # a complete valid frame whose closing flag never arrives
    if sc["pattern"].endswith("frames_single_flag"):
        return b"\x7e"
    if sc["pattern"].startswith("octet_flood:"):
        return b"\x7e\xa7\xff\x03\x21\x13\x12\x34\x01\x02"
    if sc["pattern"].startswith("token_flood:"):
        return b"/ABC5xyz\r\n"
    return b""


def execute(sc):
    reader = reader_rig.make_reader(sc["reader"], tuple(sc["cfg"]) if sc["cfg"] else None)
    blk = block(sc)
    pre = prefix(sc)
    chunk = max(1, sc["chunk"])
    total = sc["total"]
    ncalls = (total + chunk - 1) // chunk
    every = max(1, ncalls // 200)
    viol = []
    fed = 0
    peak = 0
    sizes = []
    void = False
    # stream = pre + blk repeated; produce chunks without materialising it
    varying = b"@@@@@@@@" in blk
    reps = (chunk // len(blk) + 2) if chunk > len(blk) else 2
    window = blk * reps
    offset = 0
    counter = 0
    pending = bytearray()
    call = 0
    if pre:
        try:
            reader.read(pre)
        except Exception:  # noqa: BLE001
            void = True
    while fed < total and not void and not viol:
        if varying:  # never-repeating content: every repetition of the block carries a fresh counter value
            while len(pending) < chunk:
                pending += blk.replace(b"@@@@@@@@", b"%08d" % (counter % 100000000))
                counter += 1
            data = bytes(pending[:chunk])
            del pending[:chunk]
        else:
            data = window[offset : offset + chunk]
            offset = (offset + chunk) % len(blk)
        try:
            reader.read(data)
        except Exception:  # noqa: BLE001 - C14's business
            void = True
            break
        fed += len(data)
        call += 1
        if call % every == 0 or fed >= total:
            size = deepsize.deep_size(reader)
            sizes.append(size)
            peak = max(peak, size)
            bound = CONST + 2 * len(data)
            if size > bound:
                holder = deepsize.largest_attribute(reader)
                tag = sc["reader"] if sc["reader"] == "p1" else f"hdlc cfg={'S' if sc['cfg'][0] else 's'}{'A' if sc['cfg'][1] else 'a'}"
                viol.append({"sig": f"C19/G {tag} pattern={sc['pattern']} holder={holder}", "detail": f"deep size {size} > {bound} (= 64 KiB + 2 x {len(data)}) after {fed} octets in {call} calls of {chunk}; largest attribute {holder}"})
    growth = (sizes[-1] - sizes[len(sizes) // 4]) if len(sizes) >= 8 else 0
    return {
        "violations": viol,
        "void": void,
        "digest": prng.digest([sizes[:5], peak, fed, [v["sig"] for v in viol]]),
        "nontrivial": total >= 8 * CONST,
        "key": prng.digest(sc),
        "faults": {f"pattern_{sc['pattern'].split(':')[0]}": 1},
        "probes": {f"pattern_{sc['pattern'].split(':')[0]}": 1, f"chunk_{chunk if chunk in CHUNKS else 'other'}": 1},
        "states": {(sc["reader"], tuple(sc["cfg"] or ()), sc["pattern"], chunk if chunk in CHUNKS else "other")},
        "sim_s": fed / reader_rig.LINE_RATE,
        "summary": dict(sc, block_head=blk[:40].decode("latin-1"), octets_fed=fed, calls=call, samples=len(sizes), peak_deep_size=peak, growth_second_to_last_quarter=growth),
    }


def summarise(sc):
    return sc


def candidates(sc):
    if sc["total"] > 1 << 20:
        yield dict(sc, total=1 << 20)
    if sc["total"] > 1 << 18:
        yield dict(sc, total=sc["total"] // 2)
    for c in (1024, 64):
        if sc["chunk"] != c and sc["chunk"] > c:
            yield dict(sc, chunk=c)
    if sc["cfg"] and any(sc["cfg"]):
        yield dict(sc, cfg=[False, False])
