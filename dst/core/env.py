"""Import the tree under test (from /repo, or $VERIF_REPO for audits) and silence its logging."""
from __future__ import annotations

import logging
import os
import sys
import warnings

_DONE = False


def repo_path() -> str:
    return os.path.realpath(os.environ.get("VERIF_REPO", "/repo"))


def setup() -> str:
    """Make `import han` resolve to the tree under test. Returns that tree's path."""
    global _DONE
    path = repo_path()
    if _DONE:
        return path
    sys.dont_write_bytecode = True
    os.environ.setdefault("AMSHAN_VERIF", "1")  # reserved guard name; no hook exists in /repo today
    if path in sys.path:
        sys.path.remove(path)
    sys.path.insert(0, path)
    import han  # noqa: F401

    han_file = os.path.realpath(han.__file__)
    if not han_file.startswith(path + os.sep):
        raise HarnessError(f"han imported from {han_file}, expected under {path}")
    # is_valid logs a hex dump of every invalid frame at WARNING
    logging.getLogger("han").setLevel(logging.CRITICAL + 10)
    logging.getLogger("han").propagate = False
    logging.getLogger("asyncio").setLevel(logging.CRITICAL + 10)
    warnings.filterwarnings("ignore", category=DeprecationWarning)
    _DONE = True
    return path


class HarnessError(Exception):
    """A fault of the verification machinery (exit 2) - never a VIOLATION."""
