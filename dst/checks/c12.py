"""C12 - AutoDecoder picks a decoder that accepts the message, across any history.

Rig A: histories of payloads (genuine messages of every list in both forms, template-patched
variants, P1 blocks, truncated / mutated / junk payloads, meter swaps and form switches) are given
to one AutoDecoder and checked step by step against a small reference model built from the seven
individual decoders; a second instance runs in lockstep through decode_message() with real
HdlcFrame / DlmsMessage objects.
"""
from __future__ import annotations

import copy

from dst.core import prng, shrink
from dst.world import decoder_rig, messages, pristine

PROP = "C12"
LEVEL = "exploration"
TECHNIQUE = "deterministic simulation of call histories on a sequential object: seeded histories with meter-swap / form-switch / damage faults into the real AutoDecoder, checked operation by operation against an executable reference model (acceptor set per payload from the individual decoders, stickiness, name), plus lockstep decode_message"
DESIGN_REF = "DESIGN.md section 4.6"
LEVEL_TEXT = (
    "Seeded search over histories of length 1..30 over a pool of 32 genuine messages (frame and bare-body forms, P1 blocks), template-"
    "patched variants and damaged payloads; each step is compared with a reference model (None iff no acceptor; result of the remembered "
    "decoder whenever it accepts; name bookkeeping) and with a lockstep decode_message instance. Thorough adds all histories of length "
    "<= 3 over the genuine pool (bounded enumeration, supplement). Sampling, not proof."
)
RUNS = {"quick": 20000, "thorough": 300000}
CHUNK = {"quick": 100, "thorough": 1000}
BUDGET_S = {"quick": 100, "thorough": 2400}
RULE = (
    "run = one history (length 1..30) drawn as 'same meter and form, genuine only' (own-decoder clause) or as a mix with meter swaps, form "
    "switches, truncation, mutation and junk. Non-trivial = at least two steps with a non-empty acceptor set and at least one change of the "
    "remembered decoder or one payload nobody accepts; distinct = distinct history digest."
)
STATE_MEASURE = "distinct (remembered decoder before the step, acceptor set of the step) pairs"
REAL = ["han.autodecoder.AutoDecoder", "han.aidon", "han.kaifa", "han.kamstrup", "han.cosem", "han.dlde (parser/decoder)", "han.hdlc.HdlcFrameReader + han.common.DlmsMessage (message objects for lockstep)", "construct"]
STUB = ["history/fault generator over the vendored genuine corpus"]
ASSUMPTIONS = [
    "a decoder 'accepts' a payload iff calling it returns without raising (the individual decoders are the reference, as the property is stated relative to them)",
    "ties between decoders that return equal dictionaries are accepted for previous_success_decoder",
    "an exception escaping the AutoDecoder is C15's violation; it is additionally a C12 violation only when some decoder accepts the payload (a result was owed)",
]
MUST_FIRE = {"quick": ["meter_swap_steps", "nobody_accepts_steps", "sticky_steps", "own_decoder_histories", "lockstep_hdlc", "lockstep_dlms", "bystander_decoder_instance", "entry_readout", "entry_hdlc", "simulated_process_clock"], "thorough": ["meter_swap_steps", "nobody_accepts_steps", "sticky_steps", "own_decoder_histories", "lockstep_hdlc", "lockstep_dlms"]}


# seconds after 2030-01-01: start of day, just before midnight / year end / 1 March, just before 2^31, an arbitrary afternoon
CLOCK_STARTS = [0.0, 86390.0, 365 * 86400.0 - 5, 58 * 86400.0 + 86397, 2147483647.0 - 1893456000.0 - 3, 789 * 86400.0 + 7199]


def gen(rng, tier, index):
    for sc in _gen(rng, tier, index):
        if rng.random() < 0.3:
            sc["clock"] = [rng.choice(CLOCK_STARTS), rng.choice([0.0, 1.5, 7.0, 3600.0, 86400.0])]
        yield sc


def _gen(rng, tier, index):
    pool = messages.corpus()
    n = rng.choice([1, 2, 3, 3, 5, 8, 13, 30])
    hist = []
    if rng.random() < 0.3:
        e0 = rng.choice(pool)
        same = [e for e in pool if e["meter"] == e0["meter"] and e["form"] == e0["form"]]
        for _ in range(n):
            e = rng.choice(same)
            hist.append({"data": e["data"].hex(), "k": "genuine", "src": e["name"]})
        yield {"history": hist, "own": messages.own_decoder(e0), "bystander": rng.randrange(1, 32) if rng.random() < 0.3 else 0}
        return
    if rng.random() < 0.08:
        # a success, then a long run of payloads nobody accepts (line noise for a while), then genuine traffic again
        e0 = rng.choice(pool)
        hist = [{"data": e0["data"].hex(), "k": "genuine", "src": e0["name"]}]
        for _ in range(rng.randint(8, 25)):
            hist.append({"data": rng.randbytes(rng.randint(1, 40)).hex(), "k": "junk"})
        for _ in range(rng.randint(1, 3)):
            e = rng.choice(pool)
            hist.append({"data": e["data"].hex(), "k": "genuine", "src": e["name"]})
        yield {"history": hist, "own": None, "bystander": 0}
        return
    if rng.random() < 0.08:
        # OBIS codes wander between meters and forms: a genuine message, then another meter's message carrying one of
        # the first one's codes (and the other way round), interleaved with genuine traffic
        a, b = rng.choice(pool), rng.choice(pool)
        hist = []
        for _ in range(rng.randint(1, 3)):
            x = messages.obis_cross(rng, a, b)
            y = messages.obis_cross(rng, b, a)
            hist.append({"data": a["data"].hex(), "k": "genuine", "src": a["name"]})
            if x is not None:
                hist.append({"data": x.hex(), "k": "obis_cross", "src": b["name"]})
            if y is not None:
                hist.append({"data": y.hex(), "k": "obis_cross", "src": a["name"]})
            if rng.random() < 0.5:
                hist.append({"data": b["data"].hex(), "k": "genuine", "src": b["name"]})
        yield {"history": hist, "own": None, "bystander": 0}
        return
    mixed = rng.random() < 0.4  # one instance used through both entry points and all message classes
    for _ in range(n):
        data, desc = messages.draw_payload(rng)
        item = {"data": data.hex(), "k": desc["k"], "src": desc.get("src")}
        if mixed:
            item["e"] = rng.choice(["payload", "payload", "hdlc", "dlms", "readout"])
        hist.append(item)
    yield {"history": hist, "own": None, "bystander": rng.randrange(1, 32) if rng.random() < 0.2 else 0}


def same(a, b) -> bool:
    """Equality of decoder results that treats NaN as equal to itself (a decoded 'nan*V' is a float NaN,
    and NaN != NaN would make a result differ from itself)."""
    try:
        if a == b:
            return True
    except Exception:  # noqa: BLE001
        return False
    if isinstance(a, float) and isinstance(b, float):
        return a != a and b != b
    if isinstance(a, dict) and isinstance(b, dict):
        return list(a.keys()) == list(b.keys()) and all(same(a[k], b[k]) for k in a)
    if isinstance(a, (list, tuple)) and isinstance(b, (list, tuple)):
        return len(a) == len(b) and all(same(x, y) for x, y in zip(a, b))
    return False


_ACCEPT_CACHE: dict = {}


def acceptors(payload: bytes, cache: bool = True):
    from han.autodecoder import AutoDecoder

    hit = _ACCEPT_CACHE.get(payload) if cache else None
    if hit is not None:
        return hit
    out = {}
    for name, fn in AutoDecoder.payload_decoder_functions:
        try:
            out[name] = fn(payload)
        except Exception:  # noqa: BLE001 - any failure = does not accept
            pass
    if cache and len(_ACCEPT_CACHE) < 5000:
        _ACCEPT_CACHE[payload] = out
    return out


def execute(sc):
    """The whole history runs on the simulated process clock (reader_rig.ProcessClock); with sc["clock"] = [start, step]
    it moves on between the model's question and the AutoDecoder's call: a result is a function of the payload and
    the history, not of the moment it is asked for."""
    from dst.world import reader_rig

    start, step = sc.get("clock") or (789 * 86400.0 + 7199, 0.0)  # no clock in the scenario: time stands still
    clock = reader_rig.ProcessClock()
    clock.t = float(start)
    with clock:
        res = _execute(sc, (clock, float(step)))
    if sc.get("clock"):
        res["probes"]["simulated_process_clock"] = 1
    if clock.reads:
        res["probes"]["process_clock_reads"] = clock.reads
    return res


def _execute(sc, ticking):
    from han.autodecoder import AutoDecoder

    def tick():
        if ticking is not None:
            ticking[0].t += ticking[1]

    pristine.ensure()
    if pristine.changed():  # one run = one process lifetime: start from the state of a freshly imported library
        pristine.reset()
        _ACCEPT_CACHE.clear()
    d1 = AutoDecoder()
    d2 = AutoDecoder()
    bystander = AutoDecoder() if sc.get("bystander") else None  # another meter's decoder in the same process
    pool = messages.corpus()
    last = None
    viol = []
    probes = {}
    states = set()
    log = []
    void = False

    def add(clause, facts, detail):
        sig = f"C12/{clause} {facts}"
        if not any(v["sig"] == sig for v in viol):
            viol.append({"sig": sig, "detail": detail})

    def bump(k):
        probes[k] = probes.get(k, 0) + 1

    accepted_steps = 0
    interesting = 0
    for step, item in enumerate(sc["history"]):
        payload = bytes.fromhex(item["data"])
        if bystander is not None:
            try:
                bystander.decode_message_payload(pool[(step * 5 + sc["bystander"]) % len(pool)]["data"])
            except Exception:  # noqa: BLE001
                pass
        acc = acceptors(payload, cache=not sc.get("clock") and not pristine.changed())  # cached verdicts were taken at the default instant
        entry = item.get("e", "payload")
        msg1 = None
        if entry == "hdlc":
            msg1 = decoder_rig.as_hdlc_frame(payload)
        elif entry == "dlms" and payload:
            msg1 = decoder_rig.as_dlms(payload)
        elif entry == "readout" and payload:
            msg1 = decoder_rig.as_readout(payload)
            if msg1 is not None and msg1.payload == payload:
                # a P1 readout handed over as a message is decoded together with its identification line
                from han import dlde

                acc = dict(acc)
                try:
                    acc["P1"] = dlde.decode_p1_readout(msg1)
                except Exception:  # noqa: BLE001
                    acc.pop("P1", None)
                bump("entry_readout")
            else:
                msg1 = None
        if msg1 is not None and entry != "readout":
            bump(f"entry_{entry}")
        states.add((last, tuple(sorted(acc))))
        tick()
        try:
            before = d1.previous_success_decoder
        except Exception as ex:  # noqa: BLE001
            add("M4", f"previous_success_decoder-raised {type(ex).__name__}", f"step {step}: accessor raised {ex!r}")
            break
        try:
            r1 = d1.decode_message(msg1) if msg1 is not None else d1.decode_message_payload(payload)
        except Exception as ex:  # noqa: BLE001
            if acc:
                add("M0", f"exception-although-accepted {type(ex).__name__}", f"step {step}: decode_message_payload raised {ex!r} although {sorted(acc)} accept the payload (remembered {before})")
            void = True
            break
        try:
            name = d1.previous_success_decoder
        except Exception as ex:  # noqa: BLE001
            add("M4", f"previous_success_decoder-raised {type(ex).__name__}", f"step {step}: accessor raised {ex!r} after a decode")
            break
        log.append((step, sorted(acc), None if r1 is None else name))
        if not acc:
            bump("nobody_accepts_steps")
            interesting += 1
            if r1 is not None:
                add("M1", "result-although-nobody-accepts", f"step {step}: result {str(r1)[:80]} but no individual decoder accepts {payload[:30].hex()}")
            if name != before:
                add("M4", "remembered-decoder-changed-by-unaccepted-payload", f"step {step}: previous_success_decoder {before} -> {name} on a payload nobody accepts")
        else:
            accepted_steps += 1
            if r1 is None:
                add("M1", "none-although-accepted", f"step {step}: None but {sorted(acc)} accept {payload[:30].hex()} (remembered {before})")
            else:
                matching = [n for n, r in acc.items() if same(r, r1)]
                if not matching:
                    add("M2", "result-of-no-accepting-decoder", f"step {step}: result equals none of the accepting decoders' results {sorted(acc)}")
                elif last in acc:
                    bump("sticky_steps")
                    if not same(acc[last], r1):
                        add("M3", "remembered-decoder-not-preferred", f"step {step}: remembered decoder {last} accepts the payload but the result is that of {matching}")
                if matching and name not in matching:
                    add("M4", "name-does-not-match-result", f"step {step}: previous_success_decoder={name} but the result was produced by {matching}")
                if last is not None and name != last:
                    bump("meter_swap_steps")
                    interesting += 1
                last = name
        # lockstep through decode_message with a real message object
        if payload and not viol:
            msg = decoder_rig.as_hdlc_frame(payload)
            kind = "hdlc"
            if msg is None or step % 3 == 2:
                msg = decoder_rig.as_dlms(payload)
                kind = "dlms"
            if msg1 is not None and entry == "readout":
                msg, kind = msg1, "readout"  # the lockstep instance must see the same history
            tick()
            try:
                r2 = d2.decode_message(msg)
            except Exception as ex:  # noqa: BLE001
                if acc:
                    add("M0", f"exception-although-accepted {type(ex).__name__}", f"step {step}: decode_message raised {ex!r}")
                void = True
                break
            bump(f"lockstep_{kind}")
            try:
                name2 = d2.previous_success_decoder
            except Exception as ex:  # noqa: BLE001
                add("M4", f"previous_success_decoder-raised {type(ex).__name__}", f"step {step}: accessor raised {ex!r} after decode_message")
                break
            if not same(r2, r1) or name2 != name:
                add("M5", f"decode_message-differs {kind}", f"step {step}: decode_message -> {name2 if r2 is not None else None}, decode_message_payload -> {name if r1 is not None else None}")
        if viol:
            break
    if bystander is not None:
        bump("bystander_decoder_instance")
    dirty = pristine.changed()
    if dirty and not viol and not void:
        # decoding left something behind in process-wide containers: 'no individual decoder accepts the payload' must
        # not depend on what was decoded before - ask the decoders again on the state a fresh process has
        bump("process_state_changed_runs")
        for step, item in enumerate(sc["history"]):
            payload = bytes.fromhex(item["data"])
            now = acceptors(payload, cache=False)
            with pristine.clean():
                fresh = acceptors(payload, cache=False)
            if sorted(now) != sorted(fresh) or any(not same(now[k], fresh[k]) for k in now):
                add("M7", "verdict-depends-on-earlier-payloads", f"payload of step {step} ({item['k']}): accepted by {sorted(now)} after this history but by {sorted(fresh)} in a fresh process; process-wide state changed: {dirty[:3]}")
                break
    if sc.get("own") and not void and not viol:
        bump("own_decoder_histories")
        if name != sc["own"]:
            add("M6", f"own-decoder-not-used want={sc['own']}", f"history of genuine {sc['own']} messages only, but previous_success_decoder={name}")
    return {
        "violations": viol,
        "void": void,
        "digest": prng.digest([log, [v["sig"] for v in viol]]),
        "nontrivial": accepted_steps >= 2 and interesting >= 1,
        "key": prng.digest(sc["history"]),
        "faults": {f"kind_{it['k']}": 1 for it in sc["history"]},
        "probes": probes,
        "states": states,
        "sim_s": 0.0,
        "summary": {"length": len(sc["history"]), "own": sc.get("own"), "steps": [{"kind": it["k"], "src": it.get("src"), "octets": len(it["data"]) // 2} for it in sc["history"][:10]], "outcomes": log[:10]},
    }


def summarise(sc):
    return {"length": len(sc["history"])}


def candidates(sc):
    if sc.get("clock"):
        yield {k: v for k, v in copy.deepcopy(sc).items() if k != "clock"}
    if sc.get("bystander"):
        yield dict(copy.deepcopy(sc), bystander=0)
    for red in shrink.list_reductions(sc["history"]):
        if red:
            yield dict(copy.deepcopy(sc), history=red)
    for i, it in enumerate(sc["history"]):
        if it["k"] != "genuine":
            data = bytes.fromhex(it["data"])
            for red in shrink.bytes_reductions(data, 60):
                c = copy.deepcopy(sc)
                c["history"][i]["data"] = red.hex()
                yield c


def supplements(tier):
    if tier != "thorough":
        return []

    def exhaustive():
        import itertools

        from dst.core import env

        env.setup()
        pool = messages.corpus()
        count = 0
        viol = []
        for length in (1, 2, 3):
            for combo in itertools.product(range(len(pool)), repeat=length):
                hist = [{"data": pool[i]["data"].hex(), "k": "genuine", "src": pool[i]["name"]} for i in combo]
                own = None
                if len({(pool[i]["meter"], pool[i]["form"]) for i in combo}) == 1:
                    own = messages.own_decoder(pool[combo[0]])
                sc = {"history": hist, "own": own}
                res = execute(sc)
                count += 1
                for v in res["violations"]:
                    viol.append({"sig": v["sig"], "detail": v["detail"], "index": -1, "scenario": sc})
                if viol:
                    return {"evaluations": count, "exhaustive": False, "viol": viol, "what": "stopped at first violation"}
        return {"evaluations": count, "exhaustive": True, "viol": [], "what": f"all histories of length <= 3 over the {len(pool)} vendored genuine messages (bounded enumeration, supplement only)"}

    return [("genuine_histories_len3", exhaustive)]
