"""C04 - P1: a readout is reported valid only if its CRC16 and identification check out.

Rig R with line faults on the P1 side: every returned DataReadout (and a DataReadout constructed
directly from the same bytes) is judged by an independent bit-serial CRC-16/ARC and identification
grammars.  Implications are evaluated only where their premise is unambiguous.
"""
from __future__ import annotations

import copy
import re

from dst.core import prng, shrink
from dst.world import fragment, p1_gen, p1_ref, reader_rig

PROP = "C04"
LEVEL = "exploration"
TECHNIQUE = "deterministic simulation of P1 meter -> faulty line (bit flips, checksum replacement, injected '!' / non-ASCII) -> fragmenting transport -> real ModeDReader/DataReadout; oracle = independent bit-serial CRC-16/ARC + identification grammars"
DESIGN_REF = "DESIGN.md section 4.3"
LEVEL_TEXT = (
    "Seeded search over readouts with faults in any position and checksum fields replaced by any 4-hex value (0000, case variants, "
    "wrong length, non-hex), through the reader under all fragmentations and built directly from bytes; soundness clauses use a loose "
    "identification grammar, completeness clauses a strict one, so neither direction over-demands. Sampling, not proof."
)
RUNS = {"quick": 240000, "thorough": 4000000}
CHUNK = {"quick": 400, "thorough": 3000}
BUDGET_S = {"quick": 90, "thorough": 1500}
RULE = (
    "run = one seeded readout (ident/lines/checksum mode) + 0..3 faults (bitflip, checksum replacement of 10 kinds, '!' injection, "
    "non-ASCII injection, ident damage) x one fragmentation; judged as returned by the reader and as DataReadout(bytes). Non-trivial = a "
    "readout was judged and (a fault hit it or its checksum field was replaced); distinct = distinct (bytes, cuts) digest."
)
STATE_MEASURE = "distinct (checksum class, ident class, ascii?, verdict) tuples judged"
REAL = ["han.dlde.ModeDReader", "han.dlde.DataReadout", "han.dlde.Ident"]
STUB = ["P1 meter (readout builder)", "line fault injector", "transport fragmentation"]
ASSUMPTIONS = [
    "a readout with several '!' octets, or one not at the start of the last line, has no single 'end character': counted ambiguous, not judged",
    "an exception from is_valid is not 'reported valid'; it is tallied here and judged by C14",
    "V4 (completeness) is only demanded for strict identification lines, all-ASCII content and an upper- or lower-case 4-hex-digit checksum or none",
]
MUST_FIRE = {"quick": ["ck_zero_judged", "ck_wrong_judged", "ck_good_judged", "ck_none_judged", "V4_checked", "direct_construct", "accessor_before_is_valid", "sibling_readout_checked_first"], "thorough": ["ck_zero_judged", "ck_wrong_judged", "ck_good_judged", "ck_none_judged", "V4_checked", "direct_construct", "ck_zero_and_crc_zero"]}

HEX4 = re.compile(rb"^[0-9A-Fa-f]{4}$")
# a message object has a call history too: what was read from it before is_valid is evaluated
ACCESSORS = ["identification_line", "payload", "as_bytes", "expected_checksum", "end_line", "data_lines", "is_valid", "message_type", "__str__", "__len__"]
FAULTS = ["bitflip", "bitflip", "ck_replace", "ck_replace", "ck_replace", "bang_inject", "paren_to_bang", "nonascii_inject", "ident_damage"]


def gen(rng, tier, index):
    spec = p1_gen.readout_spec(rng, None, rng.choice(["empty", "small", "small", "typical"]))
    faults = []
    for _ in range(rng.choice([0, 1, 1, 1, 2, 3])):
        k = rng.choice(FAULTS)
        f = {"k": k, "pos": rng.randrange(1 << 20), "bit": rng.randrange(8)}
        if k == "ck_replace":
            f["ck"] = p1_gen.faulty_checksum(rng, spec, rng.choice(p1_gen.CK_FAULTS))
        elif k == "nonascii_inject":
            f["val"] = rng.randrange(0x80, 0x100)
        elif k == "ident_damage":
            f["how"] = rng.choice(["lower_first", "digit_to_letter", "drop_slash_letter", "non_letter", "long_id"])
        faults.append(f)
    if rng.random() < 0.02:  # a transmitted checksum of 0000 on a readout whose CRC is something else
        faults.append({"k": "ck_replace", "pos": 0, "bit": 0, "ck": "0000"})
    elif rng.random() < 0.004:
        # ... and a readout whose genuine CRC really is 0x0000: the last data line carries a counter chosen so
        body = p1_gen.build(dict(spec, ck="none", lines=spec["lines"] + ["0-0:96.13.0("]))
        prefix = body[: body.rindex(b"(") + 1]
        counter = p1_ref.find_counter_for_crc(prefix, b")\r\n!")
        if counter is not None:
            spec = dict(spec, lines=spec["lines"] + ["0-0:96.13.0(%s)" % counter.decode()], ck="good")
            faults = [f for f in faults if f["k"] not in ("bitflip", "bang_inject", "nonascii_inject", "ident_damage", "ck_replace")]
    raw, _ = apply(spec, faults)
    pre = [rng.choice(ACCESSORS) for _ in range(rng.choice([0, 0, 0, 1, 2, 4]))]
    lead = rng.choice(["", "", "", "", "0d0a", "0a", "2d0a", "0d2a", "78", "000d0a", "20"])  # what precedes the start character when built from bytes
    sc = {"spec": spec, "faults": faults, "pre": pre, "lead": lead, "cuts": fragment.draw(rng, len(raw), [raw.find(b"!"), raw.find(b"!") + 1, raw.find(b"\n")])}
    if rng.random() < 0.2:
        # the same meter sent (or the application checked) the same readout with another checksum field a moment ago:
        # the verdict on this one must not be borrowed from that one
        sc["sibling"] = rng.choice(["good", "wrong", "both"])
    yield sc


def apply(spec, faults):
    fired = {}
    spec = copy.deepcopy(spec)
    for f in faults:
        if f["k"] == "ck_replace":
            spec["ck"] = f["ck"] if f["ck"] else "none"
            fired["checksum_replace"] = fired.get("checksum_replace", 0) + 1
        elif f["k"] == "ident_damage":
            i = spec["ident"]
            how = f["how"]
            if how == "lower_first":
                i = "/" + i[1].lower() + i[2:]
            elif how == "digit_to_letter":
                i = i[:4] + "x" + i[5:]
            elif how == "drop_slash_letter":
                i = "/" + i[2:]
            elif how == "non_letter":
                i = i[:2] + "1" + i[3:]
            else:
                i = i + "x" * 17
            spec["ident"] = i
            fired["ident_damage"] = fired.get("ident_damage", 0) + 1
    raw = bytearray(p1_gen.build(spec))
    for f in faults:
        p = f["pos"] % len(raw)
        if f["k"] == "bitflip":
            raw[p] ^= 1 << f["bit"]
        elif f["k"] == "bang_inject":
            raw.insert(p, 0x21)
        elif f["k"] == "paren_to_bang":  # the single-bit flip ')' (0x29) -> '!' (0x21) at the end of a data line
            q = raw.find(b")\r\n", p)
            if q < 0:
                q = raw.find(b")\r\n")
            if q < 0:
                continue
            raw[q] = 0x21
        elif f["k"] == "nonascii_inject":
            raw.insert(p, f["val"])
        else:
            continue
        fired[f["k"]] = fired.get(f["k"], 0) + 1
    return bytes(raw), fired


def touch(readout, pre, bump):
    for name in pre:
        try:
            v = getattr(readout, name)
            if callable(v):
                v()
            bump("accessor_before_is_valid")
        except Exception:  # noqa: BLE001 - C14's business
            bump("accessor_raised")


def judge(readout, raw: bytes, add, bump, states, origin: str, pre=()):
    """The implications V1..V5 on one DataReadout whose bytes are `raw`."""
    touch(readout, pre, bump)
    raised = None
    try:
        valid = bool(readout.is_valid)
    except Exception as ex:  # noqa: BLE001 - the exception itself is C14's business
        bump("is_valid_raised")
        valid = False
        raised = ex
    # The end character is the '!' that starts the end line. A readout is judged when exactly one line starts with
    # '!', it is the last line, and the bytes start with '/'; a stray '!' inside a data line does not make it ambiguous.
    lines = raw.split(b"\n")
    if lines and lines[-1] == b"":
        lines.pop()
    starts = [i for i, ln in enumerate(lines) if ln.startswith(b"!")]
    unambiguous = len(starts) == 1 and starts[0] == len(lines) - 1 and raw.startswith(b"/") and len(lines) >= 2
    if not unambiguous:
        bump("ambiguous_not_judged")
        return
    bump(f"judged_{origin}")
    end = sum(len(ln) + 1 for ln in lines[:-1])
    stray_bang = b"!" in raw[:end]
    if stray_bang:
        bump("stray_bang_inside_a_line")
    after = raw[end + 1 :].strip(b"\r\n \t")
    crc = p1_ref.crc16_arc_bits(raw[: end + 1])
    first = p1_ref.first_line(raw)
    loose = bool(p1_ref.LOOSE_IDENT.match(first))
    strict = bool(p1_ref.STRICT_IDENT.match(first))
    ascii_ = all(b < 0x80 for b in raw)
    if HEX4.match(after):
        given = int(after, 16)
        ck_class = "zero" if given == 0 else ("good" if given == crc else "wrong")
        if given == 0 and crc == 0:
            bump("ck_zero_and_crc_zero")
    elif not after:
        given = None
        ck_class = "none"
    else:
        given = None
        ck_class = "other"
    bump(f"ck_{ck_class}_judged")
    states.add((ck_class, "strict" if strict else ("loose" if loose else "bad"), ascii_, valid))
    if valid and not loose:
        add("V1", "valid-with-malformed-identification", f"is_valid=True but first line {first[:40]!r} is not an identification line ({origin})")
    if valid and given is not None and given != crc:
        add("V2", f"valid-with-wrong-checksum given={'0000' if given == 0 else 'nonzero'}", f"is_valid=True, transmitted checksum {after!r}, CRC16 of '/'..'!' is {crc:04X} ({origin}); readout {raw[:50]!r}...")
    if (given is None and ck_class == "none" or given is not None and given == crc and after == after.upper()) and strict and ascii_ and not stray_bang:
        bump("V4_checked")
        if not valid:
            how = f"is_valid raised {type(raised).__name__}" if raised is not None else "is_valid=False"
            add("V4", f"wellformed-readout-reported-invalid ck={ck_class}{' (raised)' if raised is not None else ''}", f"{how} for a correctly check-summed all-ASCII readout with well-formed ident ({origin}): {raw[:60]!r}...")
    if valid and not stray_bang:
        want = raw[len(first) : end]
        try:
            got = readout.payload
        except Exception:  # noqa: BLE001
            bump("payload_raised")
            return
        if got != want:
            add("V5", "payload-wrong", f"payload {got[:40]!r}... expected {want[:40]!r}... ({origin})")


def execute(sc):
    from han.dlde import DataReadout

    raw, fired = apply(sc["spec"], sc["faults"])
    probes = {}
    bang = raw.rfind(b"!")
    if sc.get("sibling") and bang > 0:
        good = p1_ref.crc16_arc_bits(raw[: bang + 1])
        for kind in (["good", "wrong"] if sc["sibling"] == "both" else [sc["sibling"]]):
            field = b"%04X" % (good if kind == "good" else good ^ 0x0101)
            try:
                DataReadout(raw[: bang + 1] + field + b"\r\n").is_valid  # noqa: B018 - evaluated for its side effects, if any
                probes["sibling_readout_checked_first"] = 1
            except Exception:  # noqa: BLE001 - the sibling's own trouble is not judged here
                pass
    reader = reader_rig.make_reader("p1")
    fed = reader_rig.feed(reader, raw, sc["cuts"])
    viol = []
    states = set()

    def add(clause, facts, detail):
        sig = f"C04/{clause} {facts}"
        if not any(v["sig"] == sig for v in viol):
            viol.append({"sig": sig, "detail": detail})

    def bump(k):
        probes[k] = probes.get(k, 0) + 1

    judged = 0
    if fed.error is None:
        for m in fed.messages:
            try:
                mb = m.as_bytes
            except Exception:  # noqa: BLE001
                bump("as_bytes_raised")
                continue
            judge(m, mb, add, bump, states, "reader", sc.get("pre") or ())
            judged += 1
    else:
        bump("read_raised")
    lead = bytes.fromhex(sc.get("lead") or "")
    try:
        direct = DataReadout(lead + raw)
        bump("direct_construct")
    except Exception:  # noqa: BLE001 - constructor exceptions are outside the property
        direct = None
        bump("direct_construct_raised")
    if direct is not None and lead.strip(b" \t\r\n\x0b\x0c"):
        # the bytes do not begin with the start character (after white space): whatever the object reports, it must not be 'valid'
        bump("direct_with_leading_junk")
        try:
            if direct.is_valid:
                add("V1", "valid-although-bytes-do-not-start-with-identification", f"DataReadout({(lead + raw)[:30]!r}...) is_valid=True although {lead!r} precedes the start character")
        except Exception:  # noqa: BLE001
            bump("is_valid_raised")
    elif direct is not None:
        judge(direct, (lead + raw).lstrip(), add, bump, states, "direct", sc.get("pre") or ())
        judged += 1
    for k, v in fired.items():
        probes[f"fault_{k}"] = probes.get(f"fault_{k}", 0) + v
    return {
        "violations": viol,
        "digest": prng.digest([raw.hex(), sorted(probes.items()), [v["sig"] for v in viol]]),
        "nontrivial": judged > 0 and bool(fired),
        "key": prng.digest([raw.hex(), sc["cuts"]]),
        "faults": dict(fired, fragmentation_cuts=fragment.n_cuts(len(raw), sc["cuts"])),
        "probes": probes,
        "states": states,
        "sim_s": len(raw) / reader_rig.LINE_RATE,
        "summary": {"readout": raw[:200].decode("latin-1"), "octets": len(raw), "faults": sc["faults"], "accessors_read_before_is_valid": sc.get("pre"), "cuts": sc["cuts"] if sc["cuts"]["m"] != "list" else {"m": "list", "at": sc["cuts"]["at"][:16]}, "returned_by_reader": len(fed.messages)},
    }


def summarise(sc):
    return {"spec": sc["spec"], "faults": sc["faults"]}


def candidates(sc):
    if sc.get("sibling"):
        yield {k: v for k, v in copy.deepcopy(sc).items() if k != "sibling"}
    for simpler in fragment.simpler(sc["cuts"]):
        yield dict(copy.deepcopy(sc), cuts=simpler)
    if sc["cuts"]["m"] != "whole":
        yield dict(copy.deepcopy(sc), cuts=fragment.keep(sc["cuts"], {"m": "whole"}))
    for red in shrink.list_reductions(sc.get("pre") or []):
        yield dict(copy.deepcopy(sc), pre=red)
    for red in shrink.list_reductions(sc["faults"]):
        yield dict(copy.deepcopy(sc), faults=red)
    for red in shrink.list_reductions(sc["spec"]["lines"]):
        c = copy.deepcopy(sc)
        c["spec"]["lines"] = red
        yield c
    if sc["spec"]["ident"] != "/ABC5":
        c = copy.deepcopy(sc)
        c["spec"]["ident"] = "/ABC5"
        yield c
    if not sc["spec"].get("blank", True):
        c = copy.deepcopy(sc)
        c["spec"]["blank"] = True
        yield c
