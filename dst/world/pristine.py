"""Process-wide state of the library under test, as a seam.

One simulated run is one process lifetime: it must start from the state a freshly imported `han` has, and what
it leaves behind in module-level or class-level containers must not leak into the next run of the same worker
(that would make a run depend on which runs the worker happened to execute before - a replay breaker).

`ensure()` snapshots every dict / list / set / bytearray bound at module level or class level in the loaded han.*
modules the first time it is called (before the first decode of the process); `changed()` says whether any of
them differs from the snapshot; `reset()` puts the snapshot content back in place; `clean()` is a context
manager that evaluates something on the pristine content and then puts the current content back - the
'what would a fresh process say' oracle without forking one.
"""
from __future__ import annotations

import contextlib
import copy
import enum
import sys

_TRACKED = None  # [(label, live object, pristine deep copy)]
_KINDS = (dict, list, set, bytearray)


def _put(obj, content) -> None:
    if isinstance(obj, dict):
        obj.clear()
        obj.update(copy.deepcopy(content))
    elif isinstance(obj, list):
        obj[:] = copy.deepcopy(content)
    elif isinstance(obj, set):
        obj.clear()
        obj.update(copy.deepcopy(content))
    else:
        obj[:] = content


def ensure():
    global _TRACKED
    if _TRACKED is not None:
        return _TRACKED
    import han.autodecoder  # noqa: F401 - pulls in every decoder module
    import han.meter_connection  # noqa: F401

    seen = set()
    out = []

    def track(label, obj):
        if not isinstance(obj, _KINDS) or id(obj) in seen:
            return
        seen.add(id(obj))
        try:
            snap = copy.deepcopy(obj)
            if snap != obj:
                return
        except Exception:  # noqa: BLE001 - not copyable / comparable: not tracked
            return
        out.append((label, obj, snap))

    for mname in sorted(m for m in sys.modules if m == "han" or m.startswith("han.")):
        mod = sys.modules[mname]
        for name, val in sorted(vars(mod).items()):
            if name.startswith("__"):
                continue
            track(f"{mname}.{name}", val)
            if isinstance(val, type) and getattr(val, "__module__", None) == mname and not issubclass(val, enum.Enum):
                for an, av in sorted(vars(val).items()):
                    if not an.startswith("__"):
                        track(f"{mname}.{name}.{an}", av)
    _TRACKED = out
    return out


def changed():
    """Labels of tracked containers whose content differs from the pristine snapshot."""
    out = []
    for label, obj, snap in ensure():
        try:
            if obj != snap:
                out.append(label)
        except Exception:  # noqa: BLE001
            out.append(label)
    return out


def reset() -> None:
    for _, obj, snap in ensure():
        try:
            if obj != snap:
                _put(obj, snap)
        except Exception:  # noqa: BLE001
            _put(obj, snap)


@contextlib.contextmanager
def clean():
    saved = [(obj, copy.deepcopy(obj)) for _, obj, snap in ensure() if obj != snap]
    reset()
    try:
        yield
    finally:
        reset()
        for obj, content in saved:
            _put(obj, content)
