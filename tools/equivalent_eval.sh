#!/bin/bash
# False-alarm audit on behaviour-preserving rewrites (equivalent/*.diff, written by sub-agents that were given
# only the property texts and had to prove equivalence by their own differential tests). Each rewrite is applied
# to a scratch copy of /repo's HEAD; the repository's tests and the related quick checks must all stay quiet.
cd "$(dirname "$0")/.."
declare -A CHECKS=( [hdlc-reader-rewrite]="C01 C02 C06 C13 C14 C16 C19" [p1-reader-rewrite]="C04 C05 C13 C14 C16 C19" [connection-manager-rewrite]="C17 C18 C13" [autodecoder-protocol-rewrite]="C12 C13 C14 C15 C17" )
bad=0
for d in equivalent/*.diff; do
  n=$(basename $d .diff); S=$(mktemp -d -p /dev/shm eq-XXXX); mkdir $S/repo
  git -C /repo archive ${BASE:-HEAD} | tar -x -C $S/repo
  if ! patch -s -p1 -d $S/repo -i $PWD/$d; then echo "$n: patch does not apply to ${BASE:-HEAD}"; rm -rf $S; continue; fi
  t=$(cd $S/repo && PYTHONPATH=$S/repo /venv/bin/python -B -m pytest -q -p no:cacheprovider 2>&1 | tail -1)
  echo "$n: repo tests: $t"
  for p in ${CHECKS[$n]}; do
    out=$(VERIF_REPO=$S/repo VERIF_EVIDENCE_DIR=$S/ev VERIF_OUT_DIR=$S/out ./check $p --tier ${TIER:-quick} 2>&1); rc=$?
    echo "  $p exit=$rc $(echo "$out" | grep -E '^SUMMARY' | cut -c1-120)"
    [ $rc -ne 0 ] && { bad=$((bad+1)); echo "$out" | grep -E '^(VIOLATION|HARNESS|  signature)' | cut -c1-250; }
  done
  rm -rf $S
done
echo "EQUIVALENT-REWRITE AUDIT: alarms=$bad"
