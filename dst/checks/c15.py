"""C15 - AutoDecoder returns a dictionary or None for every input, and terminates.

Rig A: every kind of damaged message (truncations, 1..5-octet mutations biased to type tags,
lengths, OBIS and date-time octets, random bytes, P1 text with unbalanced parentheses / trailing
garbage) is given to an AutoDecoder primed - through the public API - so that each of the seven
decoders (or none) is the remembered one, through both entry points and all message classes.
Termination is judged by a deterministic interpreter-step budget, linear in the input length.
"""
from __future__ import annotations

import copy
import time

from dst.core import prng, shrink, stepbudget
from dst.world import decoder_rig, messages, reader_rig

PROP = "C15"
LEVEL = "exploration"
TERMINATION_IS_PROPERTY = True  # a wall-clock hang found by the watchdog is a violation here, not only a harness error
TECHNIQUE = "deterministic simulation of call histories on a sequential object: seeded priming history + damaged payload (truncate/mutate/junk/unbalanced-parenthesis faults) into the real AutoDecoder via both entry points; oracle = dict-or-None, no escaping exception, deterministic sys.monitoring step budget"
DESIGN_REF = "DESIGN.md section 4.9"
LEVEL_TEXT = (
    "Seeded search over (remembered decoder in 8 states) x (entry point and message class) x damaged inputs derived from 32 genuine "
    "messages and their template-patched variants; a step budget of 7 x (50000 + 2000 x len) interpreter events - two orders of magnitude "
    "above genuine decodes and linear in the input - turns non-termination into a replayable violation. Sampling, not proof."
)
RUNS = {"quick": 160000, "thorough": 5000000}
CHUNK = {"quick": 200, "thorough": 2000}
BUDGET_S = {"quick": 100, "thorough": 2400}
RULE = (
    "run = priming history (0..1 genuine messages, chosen so that a given decoder is remembered) + one input of kind genuine/patched/"
    "truncate/mutate/p1_mutate/unbalanced_paren/junk + entry point (payload, HdlcFrame, DlmsMessage, DataReadout). Non-trivial = the input "
    "is not an unmodified genuine message; distinct = distinct (remembered decoder, entry, input) digest."
)
STATE_MEASURE = "distinct (remembered decoder, entry point, input kind, outcome class dict/None) tuples"
REAL = ["han.autodecoder.AutoDecoder", "han.aidon", "han.kaifa", "han.kamstrup", "han.cosem", "han.dlde (parser/decoder, DataReadout, ModeDReader)", "han.hdlc.HdlcFrameReader (to build message objects)", "han.obis", "construct"]
STUB = ["history/fault generator over the vendored genuine corpus", "HDLC frame builder / P1 readout wrapper"]
ASSUMPTIONS = [
    "a single decode call taking more than 10 s of wall-clock time (genuine messages: milliseconds) is reported as exceeding the time bound - the only wall-clock verdict in the framework, three orders of magnitude above normal",
    "step budget 7 x (50000 + 2000 x len(input)) PY_START+JUMP events bounds time; allocation by Python code is bounded by the same count (a single huge C-level allocation in one step would be missed)",
    "priming uses genuine messages through decode_message_payload only; a priming call that itself raises makes the run void",
]
MUST_FIRE = {"quick": ["remembered_None", "remembered_Kamstrup_frame", "remembered_P1", "remembered_Kamstrup_notification_body", "long_priming_history", "entry_message_p1", "entry_message_hdlc", "kind_unbalanced_paren", "result_dict", "result_none"], "thorough": ["remembered_None", "remembered_Kamstrup_frame", "remembered_P1", "remembered_Kamstrup_notification_body", "long_priming_history", "entry_message_p1", "entry_message_hdlc", "kind_unbalanced_paren", "result_dict", "result_none"]}

WALL_LIMIT_S = 10.0
ENTRIES = ["payload", "payload", "payload", "message_hdlc", "message_dlms", "message_p1"]


def gen(rng, tier, index):
    table = decoder_rig.primers()
    names = [None] + sorted(table)
    remembered = rng.choice(names)
    data, desc = messages.draw_payload(rng)
    entry = rng.choice(ENTRIES)
    if entry == "message_p1" and (b"!" in data or b"/" in data or not data):
        entry = "payload"
    prime = [table[remembered]] if remembered else []
    if rng.random() < 0.35:
        # a longer history: the remembered index has moved around the table (and wrapped) before
        pool = messages.corpus()
        prime = [rng.choice(pool)["data"].hex() for _ in range(rng.randint(1, 3))] + prime
    sc = {"prime": prime, "remembered": remembered, "entry": entry, "data": data.hex(), "kind": desc["k"], "src": desc.get("src")}
    if rng.random() < 0.2:
        # the history also went through decode_message(): message objects, including ones without payload
        sc["prime_msgs"] = [rng.choice(["", "", "0201", rng.choice(messages.corpus())["data"].hex()]) for _ in range(rng.randint(1, 3))]
    if entry == "message_p1" and rng.random() < 0.5:
        sc["ident"] = messages.weird_ident(rng).hex()
    yield sc


def _call(dec, entry, data, ident=None):
    if entry == "payload":
        return dec.decode_message_payload(data), True
    if entry == "message_hdlc":
        msg = decoder_rig.as_hdlc_frame(data)
    elif entry == "message_dlms":
        msg = decoder_rig.as_dlms(data)
    else:
        msg = decoder_rig.as_readout(data, ident)
    if msg is None:
        return dec.decode_message_payload(data), False
    return dec.decode_message(msg), True


def execute(sc):
    from han.autodecoder import AutoDecoder

    data = bytes.fromhex(sc["data"])
    dec = AutoDecoder()
    void = False
    try:
        for p in sc["prime"]:
            dec.decode_message_payload(bytes.fromhex(p))
        for p in sc.get("prime_msgs") or ():
            dec.decode_message(decoder_rig.as_dlms(bytes.fromhex(p)))
    except Exception:  # noqa: BLE001
        void = True
    try:
        remembered = dec.previous_success_decoder  # probe only (C12 judges this accessor)
    except Exception:  # noqa: BLE001
        remembered = "<accessor raised>"
    viol = []
    budget = 7 * (50_000 + 2_000 * len(data))
    steps = 0
    outcome = "void"
    used_entry = sc["entry"]
    wall0 = time.monotonic()
    if not void:
        try:
            with stepbudget.StepBudget(budget) as sb:
                try:
                    result, as_asked = _call(dec, sc["entry"], data, bytes.fromhex(sc["ident"]) if sc.get("ident") else None)
                    if not as_asked:
                        used_entry = "payload"
                    if result is None:
                        outcome = "none"
                    elif isinstance(result, dict):
                        outcome = "dict"
                    else:
                        outcome = "other"
                        viol.append({"sig": f"C15/R returned-{type(result).__name__}", "detail": f"{used_entry} returned {type(result).__name__}, expected dict or None"})
                except stepbudget.BudgetExceeded:
                    raise
                except Exception as ex:  # noqa: BLE001
                    outcome = "raised"
                    viol.append({"sig": f"C15/X {type(ex).__name__} {reader_rig.exc_site(ex)}", "detail": f"{used_entry}({data[:40].hex()}{'...' if len(data) > 40 else ''}; {len(data)} octets, kind {sc.get('kind')}) with remembered decoder {remembered} raised {repr(ex)[:160]}"})
                steps = sb.count
        except stepbudget.BudgetExceeded:
            outcome = "budget"
            steps = budget
            viol.append({"sig": "C15/T step-budget-exceeded", "detail": f"{used_entry} on {len(data)} octets ({data[:60]!r}) with remembered decoder {remembered} used more than {budget} interpreter events: no termination in time"})
    wall = time.monotonic() - wall0
    if wall > WALL_LIMIT_S and not viol:
        # Time spent outside the interpreter's step accounting (big-number arithmetic, regular expressions): a call that
        # normally takes milliseconds needing more than WALL_LIMIT_S seconds is not "bounded by a small polynomial in the input length".
        viol.append({"sig": "C15/W wall-clock-time-bound", "detail": f"{used_entry} on {len(data)} octets ({data[:60]!r}) with remembered decoder {remembered} took {wall:.1f} s of wall-clock time (limit {WALL_LIMIT_S} s; genuine messages take milliseconds) although only {steps} interpreter events were counted"})
    return {
        "violations": viol,
        "void": void,
        "digest": prng.digest([remembered, used_entry, outcome, [v["sig"] for v in viol]]),
        "nontrivial": not void and sc.get("kind") != "genuine",
        "key": prng.digest([remembered, used_entry, sc["data"]]),
        "faults": {f"kind_{sc.get('kind')}": 1},
        "probes": {f"remembered_{remembered}": 1, f"entry_{used_entry}": 1, f"kind_{sc.get('kind')}": 1, f"result_{outcome}": 1, "steps_over_10pct_of_budget": 1 if steps > budget // 10 else 0, "long_priming_history": 1 if len(sc["prime"]) > 1 else 0, "readout_with_generated_ident": 1 if sc.get("ident") else 0},
        "states": {(remembered, used_entry, sc.get("kind"), outcome)},
        "sim_s": 0.0,
        "summary": {"remembered": remembered, "entry": used_entry, "kind": sc.get("kind"), "source": sc.get("src"), "input_octets": len(data), "input_head_hex": data[:48].hex(), "outcome": outcome, "interpreter_events": steps, "budget": budget},
    }


def summarise(sc):
    return {k: sc.get(k) for k in ("remembered", "entry", "kind", "src")}


def candidates(sc):
    if sc["prime"]:
        yield dict(copy.deepcopy(sc), prime=[], remembered=None)
    for red in shrink.list_reductions(sc["prime"]):
        if red:
            yield dict(copy.deepcopy(sc), prime=red)
    if sc.get("ident"):
        yield dict(copy.deepcopy(sc), ident=None)
    if sc.get("prime_msgs"):
        yield {k: v for k, v in copy.deepcopy(sc).items() if k != "prime_msgs"}
    if sc["entry"] != "payload":
        yield dict(copy.deepcopy(sc), entry="payload")
    data = bytes.fromhex(sc["data"])
    for red in shrink.bytes_reductions(data, 400):
        yield dict(copy.deepcopy(sc), data=red.hex())
