#!/venv/bin/python
"""Print the DESIGN 9.5 measurement table from evidence/*.json (what the last run of each check actually did)."""
import glob, json, os
ROOT = os.path.dirname(os.path.dirname(os.path.abspath(__file__)))
print("| check | tier | runs | evaluations | distinct non-trivial | wall | runs/hour | simulated seconds | distinct states | pass under python -O |")
print("|---|---|---|---|---|---|---|---|---|---|")
for f in sorted(glob.glob(os.path.join(ROOT, "evidence", "C*.json"))):
    e = json.load(open(f))
    c = e["coverage"]
    o = c.get("optimised_interpreter_pass") or {}
    oruns = ""
    if o:
        s = o.get("summary", "")
        oruns = (s.split("runs=")[1].split(" ")[0] + " runs, exit " + str(o.get("exit"))) if "runs=" in s else f"exit {o.get('exit')}"
    print(f"| {e['property_id']} | {e['tier']} | {c['runs']:,} | {c['evaluations']:,} | {c['distinct_nontrivial']:,} | {e['wall_s']:.0f} s | {c['runs_per_hour']:,} | {c['simulated_seconds']:,.0f} | {c['distinct_states']:,} | {oruns} |".replace(",", " "))
