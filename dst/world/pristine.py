"""Process-wide state of the library under test, as a seam.

One simulated run is one process lifetime: it must start from the state a freshly imported `han` has, and what
it leaves behind in module-level or class-level containers must not leak into the next run of the same worker
(that would make a run depend on which runs the worker happened to execute before - a replay breaker).

`ensure()` snapshots every dict / list / set / bytearray bound at module level or class level in the loaded han.*
modules the first time it is called (before the first decode of the process); `changed()` says whether any of
them differs from the snapshot; `reset()` puts the snapshot content back in place; `clean()` is a context
manager that evaluates something on the pristine content and then puts the current content back - the
'what would a fresh process say' oracle without forking one.
"""
from __future__ import annotations

import contextlib
import copy
import enum
import sys

_TRACKED = None  # [(label, live object, pristine deep copy)]
_SCALARS = None  # [(namespace object (module or class), {name: value bound at snapshot time})]
_KINDS = (dict, list, set, bytearray)
_SIMPLE = (type(None), bool, int, float, str, bytes, tuple, frozenset)


def _put(obj, content) -> None:
    if isinstance(obj, dict):
        obj.clear()
        obj.update(copy.deepcopy(content))
    elif isinstance(obj, list):
        obj[:] = copy.deepcopy(content)
    elif isinstance(obj, set):
        obj.clear()
        obj.update(copy.deepcopy(content))
    else:
        obj[:] = content


def _simple_names(ns):
    return {n: v for n, v in vars(ns).items() if not n.startswith("__") and isinstance(v, _SIMPLE)}


def ensure():
    global _TRACKED, _SCALARS
    if _TRACKED is not None:
        return _TRACKED
    import han.autodecoder  # noqa: F401 - pulls in every decoder module
    import han.meter_connection  # noqa: F401

    seen = set()
    out = []
    scalars = []

    def track(label, obj):
        if not isinstance(obj, _KINDS) or id(obj) in seen:
            return
        seen.add(id(obj))
        try:
            snap = copy.deepcopy(obj)
            if snap != obj:
                return
        except Exception:  # noqa: BLE001 - not copyable / comparable: not tracked
            return
        out.append((label, obj, snap))

    for mname in sorted(m for m in sys.modules if m == "han" or m.startswith("han.")):
        mod = sys.modules[mname]
        scalars.append((mod, _simple_names(mod)))  # rebinding a module-level name (a flag, a counter, 'last seen type') is state too
        for name, val in sorted(vars(mod).items()):
            if name.startswith("__"):
                continue
            track(f"{mname}.{name}", val)
            if isinstance(val, type) and getattr(val, "__module__", None) == mname and not issubclass(val, enum.Enum):
                scalars.append((val, _simple_names(val)))
                for an, av in sorted(vars(val).items()):
                    if not an.startswith("__"):
                        track(f"{mname}.{name}.{an}", av)
    _TRACKED = out
    _SCALARS = scalars
    return out


def _scalar_changes():
    for ns, was in _SCALARS or ():
        now = _simple_names(ns)
        for n in now.keys() | was.keys():
            if n not in was:
                # a name bound later: state only if simple (functions/classes bound later are lazy imports, not state)
                yield ns, n, False, None
            elif n not in now:
                if n in vars(ns):
                    yield ns, n, True, was[n]  # re-bound to something that is not simple any more
                else:
                    yield ns, n, True, was[n]
            elif now[n] is not was[n] and now[n] != was[n]:
                yield ns, n, True, was[n]


def changed():
    """Labels of tracked containers whose content differs from the pristine snapshot."""
    out = []
    for label, obj, snap in ensure():
        try:
            if obj != snap:
                out.append(label)
        except Exception:  # noqa: BLE001
            out.append(label)
    for ns, n, _, _ in _scalar_changes():
        out.append(f"{getattr(ns, '__module__', None) or ''}{'.' if hasattr(ns, '__module__') else ''}{getattr(ns, '__name__', ns)}.{n}")
    return out


def reset() -> None:
    for _, obj, snap in ensure():
        try:
            if obj != snap:
                _put(obj, snap)
        except Exception:  # noqa: BLE001
            _put(obj, snap)
    for ns, n, had, val in list(_scalar_changes()):
        try:
            if had:
                setattr(ns, n, val)
            else:
                delattr(ns, n)
        except Exception:  # noqa: BLE001
            pass


@contextlib.contextmanager
def clean():
    saved = [(obj, copy.deepcopy(obj)) for _, obj, snap in ensure() if obj != snap]
    rebound = [(ns, n, vars(ns).get(n)) for ns, n, _, _ in _scalar_changes() if n in vars(ns)]
    reset()
    try:
        yield
    finally:
        reset()
        for obj, content in saved:
            _put(obj, content)
        for ns, n, val in rebound:
            setattr(ns, n, val)
