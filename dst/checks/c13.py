"""C13 - protocols forward exactly the selected reader's messages, payloads only if valid.

Rig P: the real SmartMeterMessagePayloadProtocol / SmartMeterMessageProtocol on the virtual-time
loop; a fake transport delivers the fragmented stream with call_later at line rate, a consumer
task drains the queue.  Oracle: shadow readers (fresh, same class and configuration as each
candidate) fed the identical chunks define what the queue must contain; on clean streams the
queue must additionally equal what the meter sent.
"""
from __future__ import annotations

import asyncio
import contextlib
import copy

from dst.core import prng, shrink
from dst.core.vloop import new_loop
from dst.checks import c02, c05, c16
from dst.world import fragment, hdlc_gen, hdlc_wires, p1_gen, reader_rig

PROP = "C13"
LEVEL = "exploration"
TECHNIQUE = "deterministic simulation on a virtual-time asyncio loop: fake transport delivers a seeded, fault-injected, fragmented byte stream to the real protocol objects while a consumer task drains the queue; oracle = shadow readers fed the same chunks + ground truth on clean streams"
DESIGN_REF = "DESIGN.md section 4.7"
LEVEL_TEXT = (
    "Seeded search over streams (clean HDLC, clean P1, faulty HDLC wires, noise followed by clean traffic, mixed) x fragmentations x "
    "candidate lists ([H], [P], [H,P], [P,H], two HDLC configurations, factory default, empty) x both protocol classes. The expected queue "
    "is derived from independent shadow instances of the candidate readers, so the check is relative to 'the selected reader' as the "
    "property is; clean streams are also compared with what the meter model sent. Sampling, not proof."
)
RUNS = {"quick": 36000, "thorough": 600000}
CHUNK = {"quick": 200, "thorough": 1000}
BUDGET_S = {"quick": 100, "thorough": 2400}
RULE = (
    "run = protocol class x candidate list x stream x fragmentation, delivered in virtual time. Non-trivial = a reader was selected and at "
    "least one later chunk produced messages, or an invalid message was withheld; distinct = distinct (class, candidates, stream, cuts) digest."
)
STATE_MEASURE = "distinct (protocol class, candidate list, stream kind, selection chunk bucket, selected candidate index) tuples"
REAL = ["han.meter_connection.SmartMeterMessagePayloadProtocol", "han.meter_connection.SmartMeterMessageProtocol", "han.hdlc.HdlcFrameReader", "han.dlde.ModeDReader", "asyncio.Queue/Future/Task (CPython)"]
STUB = ["event loop clock+selector (VLoop)", "transport (delivers chunks by call_later at line rate)", "meter/line/fragmentation models", "queue consumer task"]
ASSUMPTIONS = [
    "ties between candidates that first produce a valid message in the same chunk may be resolved either way, but the same way whenever the same stream, chunking and candidate list are given again (the property quantifies over exactly these and speaks of 'the selected reader'; tie runs are executed seven times with freshly allocated objects)",
    "an exception escaping data_received on a noisy stream makes the run void (C14); on a clean stream it is a violation (promised messages lost)",
    "the absolute clean-stream oracle is used only with candidate lists in which exactly one reader matches the stream's type and configuration",
]
MUST_FIRE = {"quick": ["valid_message_with_empty_payload", "selected_second_candidate", "invalid_withheld", "clean_absolute_checked", "empty_candidate_list", "selection_after_first_chunk", "reconnect_with_same_candidate_sequence", "candidates_as_tuple", "bystander_protocol_instance", "stalled_delivery", "tie_between_candidates", "candidates_built_inline", "chunks_as_reused_bytearray", "connection_made_again_on_same_protocol"], "thorough": ["selected_second_candidate", "invalid_withheld", "clean_absolute_checked", "empty_candidate_list", "selection_after_first_chunk"]}


def _cand_lists(rng, cfg):
    h = ["H", bool(cfg[0]), bool(cfg[1])]
    other = ["H", not cfg[0], bool(cfg[1])]
    return rng.choice([[h], [["P"]], [h, ["P"]], [["P"], h], [h, other], [other, h], [["H", False, True], ["P"]], []])


def gen(rng, tier, index):
    kind = rng.choice(["clean_hdlc", "clean_hdlc", "clean_p1", "clean_p1", "faulty_hdlc", "noise_then_clean", "noise_then_clean", "mixed"])
    cfg = list(rng.choice(hdlc_gen.CONFIGS))
    if kind == "clean_hdlc":
        sub = next(c02.gen(rng, tier, index))
        cfg = sub["cfg"]
        stream = {"kind": kind, "c02": {"cfg": cfg, "items": sub["items"]}}
        cands = rng.choice([[["H"] + cfg], [["H"] + cfg, ["P"]], [["P"], ["H"] + cfg]])
    elif kind == "clean_p1":
        specs = [p1_gen.readout_spec(rng, i if rng.random() < 0.6 else None, rng.choice(["empty", "small", "typical"])) for i in range(rng.choice([1, 2, 3, 6, 12]))]
        specs = [s for s in specs if p1_gen.well_formed(s)] or [p1_gen.readout_spec(rng, 0, "small")]
        stream = {"kind": kind, "c05": {"readouts": specs}}
        cands = rng.choice([[["P"]], [["H"] + cfg, ["P"]], [["P"], ["H"] + cfg], [["H", False, True], ["P"]]])
    elif kind == "faulty_hdlc":
        stream = {"kind": kind, "cfg": cfg, "wire": hdlc_wires.draw(rng, tuple(cfg))}
        cands = _cand_lists(rng, cfg)
    elif kind == "noise_then_clean":
        sub = next(c16.gen(rng, tier, index))
        if sub["reader"] == "hdlc":
            cfg = sub["cfg"]
        stream = {"kind": kind, "c16": {k: sub[k] for k in ("reader", "cfg", "noise", "noise_kind", "clean")}}
        cands = _cand_lists(rng, cfg)
    else:
        a = next(c02.gen(rng, tier, index))
        cfg = a["cfg"]
        specs = [p1_gen.readout_spec(rng, i, "small") for i in range(rng.randint(1, 3))]
        specs = [s for s in specs if p1_gen.well_formed(s)] or [p1_gen.readout_spec(rng, 0, "small")]
        order = rng.choice(["hp", "ph"])
        stream = {"kind": kind, "order": order, "c02": {"cfg": cfg, "items": a["items"][:9]}, "c05": {"readouts": specs}}
        cands = _cand_lists(rng, cfg)
    wire = wire_of(stream)[0]
    hot = [i + 1 for i, b in enumerate(wire[:4000]) if b in (0x7E, 0x7D, 0x0A, 0x21)][:200]
    sc = {"cls": rng.choice(["payload", "message"]), "cands": cands, "stream": stream, "cuts": fragment.draw(rng, len(wire), hot, allow_empty=False)}
    if rng.random() < 0.12:
        a = next(c02.gen(rng, tier, index))
        sc["bystander"] = (hdlc_gen.assemble(a["items"][:7], False)[0][:400] + p1_gen.build(p1_gen.readout_spec(rng, None, "small"))).hex()
    r = rng.random()
    if r < 0.15:
        sc["cands_as"] = "tuple"  # the parameter is a Sequence: a tuple is as good as a list
    elif r < 0.3 and cands:
        # reconnect: an earlier protocol instance was built from the very same candidate sequence object
        # (that is what a connection factory does on every reconnect) and has already seen a stream
        specs = [p1_gen.readout_spec(rng, i, "small") for i in range(rng.randint(1, 3))]
        specs = [x for x in specs if p1_gen.well_formed(x)] or [p1_gen.readout_spec(rng, 0, "small")]
        first = next(c02.gen(rng, tier, index))
        earlier = {"kind": "clean_hdlc", "c02": {"cfg": first["cfg"], "items": first["items"][:7]}} if rng.random() < 0.5 else {"kind": "clean_p1", "c05": {"readouts": specs}}
        sc["reuse"] = {"stream": earlier, "cuts": {"m": "fixed", "k": rng.choice([1, 7, 64, 100000])}}
    if rng.random() < 0.12:
        sc["inline"] = True  # the caller keeps no reference to the candidate readers
    if kind == "clean_p1" and len(stream["c05"]["readouts"]) >= 2 and rng.random() < 0.3:
        # lifecycle fault: the same protocol object gets connection_made() again (a protocol factory that hands out one
        # instance for every connection), placed on a readout boundary of a clean stream - there a design that goes on with
        # the selected reader and one that detects the reader type again must both forward everything that follows
        sc["remade"] = {"readout": rng.randint(1, len(stream["c05"]["readouts"]) - 1), "lost_first": rng.random() < 0.5}
    yield sc


def wire_of(stream):
    """-> (wire, list of payloads the meter sent (clean kinds only, else None))"""
    k = stream["kind"]
    if k == "clean_hdlc":
        wire, spans = hdlc_gen.assemble(stream["c02"]["items"], stream["c02"]["cfg"][0])
        pay = [bytes.fromhex(stream["c02"]["items"][s["i"]]["info"]) for s in spans if s["t"] == "frame"]
        return wire, [p for p in pay if p]
    if k == "clean_p1":
        raws = [p1_gen.build(s) for s in stream["c05"]["readouts"]]
        pay = [r[r.index(b"\n") + 1 : r.index(b"!")] for r in raws]
        return b"".join(raws), [p for p in pay if p]
    if k == "faulty_hdlc":
        return hdlc_wires.wire_of(stream["wire"], stream["cfg"][0])[0], None
    if k == "noise_then_clean":
        return c16.wire_of(stream["c16"])[0], None
    a, _ = hdlc_gen.assemble(stream["c02"]["items"], stream["c02"]["cfg"][0])
    b = b"".join(p1_gen.build(s) for s in stream["c05"]["readouts"])
    return (a + b if stream["order"] == "hp" else b + a), None


def _split_at(chunks, boundary):
    """-> (chunks with a cut at stream offset `boundary`, index of the chunk that starts there or None)"""
    out, pos, idx = [], 0, None
    for c in chunks:
        if pos < boundary < pos + len(c):
            out.append(c[: boundary - pos])
            idx = len(out)
            out.append(c[boundary - pos :])
        else:
            if pos == boundary and idx is None:
                idx = len(out)
            out.append(c)
        pos += len(c)
    return out, idx


def make(spec):
    if spec[0] == "P":
        return reader_rig.make_reader("p1")
    return reader_rig.make_reader("hdlc", (spec[1], spec[2]))


class _Transport(asyncio.Transport):
    def get_extra_info(self, name, default=None):
        return ("sim", 1) if name == "peername" else default

    def close(self):
        pass


def _msg_sig(m):
    return (type(m).__name__, m.as_bytes, bool(m.is_valid))


_KEEP = []


def execute(sc):
    """One run; when two candidates produce their first valid message in the same chunk (a tie, which the property
    lets the library resolve either way) the run is executed again with freshly allocated reader objects: the queue
    contents must be a function of (stream, chunking, candidate list), not of where the objects happen to live."""
    res = _execute_once(sc)
    if res.pop("tie", False) and not res["violations"] and not res["void"]:
        res["probes"]["tie_between_candidates"] = 1
        for _ in range(6):
            _KEEP.append([object() for _ in range(1 + len(_KEEP) % 7)])  # shift the allocator; earlier readers stay alive below
            again = _execute_once(sc)
            _KEEP.append(again.pop("_objects", None))
            if again["digest"] != res["digest"]:
                res["violations"].append({"sig": f"C13/Q4 {sc['cls']} outcome-differs-between-executions-with-identical-inputs", "detail": f"candidates {sc['cands']} tie in one chunk; two executions of the same stream, chunking and candidate list put different items on the queue ({res['summary']['queue_items']} vs {again['summary']['queue_items']} items): there is no single 'selected reader' for these inputs"})
                res["digest"] = prng.digest(["Q4"])
                break
        if len(_KEEP) > 64:
            del _KEEP[:]
    res.pop("_objects", None)
    return res


def _execute_once(sc):
    import han.meter_connection as mc

    stream = sc["stream"]
    wire, sent = wire_of(stream)
    chunks = fragment.chunks(wire, sc["cuts"])
    remake_idx = None
    if sc.get("remade") and stream["kind"] == "clean_p1":
        raws = [p1_gen.build(s) for s in stream["c05"]["readouts"]]
        if 1 <= sc["remade"]["readout"] < len(raws):
            chunks, remake_idx = _split_at(chunks, sum(len(r) for r in raws[: sc["remade"]["readout"]]))
    remade = []
    # in-domain guard for the clean classes (shrink candidates must not leave the domain)
    clean = stream["kind"] in ("clean_hdlc", "clean_p1")
    if stream["kind"] == "clean_hdlc":
        r = c02.execute({"cfg": stream["c02"]["cfg"], "items": stream["c02"]["items"], "cuts": {"m": "whole"}})
        if r.get("void"):
            clean = False
    if stream["kind"] == "clean_p1" and not all(p1_gen.well_formed(s) for s in stream["c05"]["readouts"]):
        clean = False
    matching = 0
    if clean:
        for spec in sc["cands"]:
            if stream["kind"] == "clean_p1" and spec[0] == "P":
                matching += 1
            if stream["kind"] == "clean_hdlc" and spec[0] == "H" and [spec[1], spec[2]] == list(stream["c02"]["cfg"]):
                matching += 1
        same_family = sum(1 for spec in sc["cands"] if (spec[0] == "P") == (stream["kind"] == "clean_p1"))
        absolute = matching == 1 and same_family == 1 and not sc.get("reuse")
    else:
        absolute = False

    loop = new_loop()
    asyncio.events._set_running_loop(loop)
    got = []
    reuse_failed = False
    try:
        q = asyncio.Queue()
        cls = mc.SmartMeterMessagePayloadProtocol if sc["cls"] == "payload" else mc.SmartMeterMessageProtocol
        readers = [make(s) for s in sc["cands"]]
        handed = tuple(readers) if sc.get("cands_as") == "tuple" else readers  # the object given to the protocol(s)
        if sc.get("reuse"):
            wire_a = wire_of(sc["reuse"]["stream"])[0]
            earlier = cls(asyncio.Queue(), handed)
            earlier.connection_made(_Transport())
            for chunk in fragment.chunks(wire_a, sc["reuse"]["cuts"]):
                try:
                    earlier.data_received(chunk)
                except Exception:  # noqa: BLE001
                    reuse_failed = True
                    break
        # what the caller passed, in the state it is in now: the reference for the shadow readers
        shadows0 = copy.deepcopy(readers)
        proto = cls(q, handed)
        proto.connection_made(_Transport())
        if sc.get("inline"):
            # the caller built the candidates inline (cls(queue, [HdlcFrameReader(), ModeDReader()])) and keeps no
            # reference of its own: the protocol alone has to keep its readers alive
            import gc

            readers = handed = None
            if sc.get("reuse"):
                earlier = None
            gc.collect()
    finally:
        asyncio.events._set_running_loop(None)
    errors = []
    other = None
    if sc.get("bystander"):
        # another connection in the same process: its own protocol instance, queue, readers and traffic
        asyncio.events._set_running_loop(loop)
        try:
            other = cls(asyncio.Queue(), [make(["H", False, True]), make(["P"])])
            other.connection_made(_Transport())
        finally:
            asyncio.events._set_running_loop(None)
        other_wire = bytes.fromhex(sc["bystander"])
        other_pos = [0]

    chunk_as = sc["cuts"].get("as")
    rx = bytearray()

    def deliver(chunk, idx):
        if other is not None and other_pos[0] < len(other_wire):
            step = 1 + (idx * 11) % 37
            try:
                other.data_received(other_wire[other_pos[0] : other_pos[0] + step])
            except Exception:  # noqa: BLE001 - the bystander's own trouble is not judged here
                pass
            other_pos[0] += step
        if idx == remake_idx and idx > 0:
            # the connection ends (or is just replaced) between two readouts and a new one is made on the same protocol object
            if sc["remade"].get("lost_first"):
                proto.connection_lost(None)
            proto.connection_made(_Transport())
            remade.append(idx)
        arg = chunk
        if chunk_as == "bytearray":
            arg = bytearray(chunk)  # a transport may hand over a bytearray; every candidate must still see all of it
        elif chunk_as == "reused_bytearray":
            rx[:] = chunk  # one receive buffer, refilled before every delivery
            arg = rx
        try:
            proto.data_received(arg)
        except Exception as ex:  # noqa: BLE001
            errors.append((idx, ex))

    async def consume():
        while True:
            got.append(await q.get())

    t = 0.0
    stall = {}
    for k, sec in sc["cuts"].get("gaps") or ():  # the sender / the transport stalls before some deliveries
        stall[k % len(chunks)] = stall.get(k % len(chunks), 0.0) + float(sec)
    for idx, chunk in enumerate(chunks):
        t += len(chunk) / reader_rig.LINE_RATE + stall.get(idx, 0.0)
        loop.call_at(t, deliver, chunk, idx)
    consumer = loop.create_task(consume())
    # every clock the library could consult reads the virtual loop's time while the deliveries run
    with reader_rig.ProcessClock(loop.time) if stall else contextlib.nullcontext():
        loop.drive(10 * len(chunks) + 100)
    sim_s = loop.time()
    consumer.cancel()
    loop.shutdown()

    viol = []
    probes = {}
    states = set()
    tag = sc["cls"]

    def add(clause, facts, detail):
        sig = f"C13/{clause} {tag} {facts}"
        if not any(v["sig"] == sig for v in viol):
            viol.append({"sig": sig, "detail": detail})

    void = False
    tie = False
    if errors:
        idx, ex = errors[0]
        if clean:
            add("X", f"data_received-raised-on-clean-stream {type(ex).__name__} {reader_rig.exc_site(ex)}", f"call #{idx}: {ex!r}")
        # On a noisy stream the exception itself is C14's violation; here it only matters if it made the
        # queue differ from what the selected reader's messages require (loss), which is judged below.
    nontrivial = False
    if not errors or not clean:
        # shadow readers
        per = []
        for rd in shadows0:
            first = None
            by_chunk = []
            bad = False
            for idx, chunk in enumerate(chunks):
                try:
                    msgs = rd.read(chunk)
                    sigs = [(m, bool(m.is_valid)) for m in msgs]
                except Exception:  # noqa: BLE001
                    bad = True
                    break
                by_chunk.append(sigs)
                if first is None and any(v for _, v in sigs):
                    first = idx
            per.append((first, by_chunk, bad))
        if any(b for _, _, b in per):
            void = True
        else:
            firsts = [f for f, _, _ in per if f is not None]
            if sc["cls"] == "payload":
                got_sig = list(got)
            else:
                got_sig = [_msg_sig(m) for m in got]
            if not firsts:
                if got_sig:
                    add("Q0", "enqueued-without-selection", f"no candidate ever produced a valid message, but the queue received {len(got_sig)} items")
                if not sc["cands"]:
                    probes["empty_candidate_list"] = 1
            else:
                k = min(firsts)
                tie = sum(1 for f in firsts if f == k) > 1
                explained = False
                options = []
                for ci, (f, by_chunk, _) in enumerate(per):
                    if f != k:
                        continue
                    exp = []
                    withheld = 0
                    later = 0
                    for idx in range(k, len(by_chunk)):
                        for m, valid in by_chunk[idx]:
                            if idx > k:
                                later += 1
                            if sc["cls"] == "payload":
                                p = m.payload
                                if valid and p is not None and len(p) > 0:
                                    exp.append(p)
                                else:
                                    withheld += 1
                                    if valid:
                                        probes["valid_message_with_empty_payload"] = 1
                            else:
                                exp.append((type(m).__name__, m.as_bytes, valid))
                    options.append((ci, exp, withheld, later))
                    if exp == got_sig:
                        explained = True
                        if ci > 0:
                            probes["selected_second_candidate"] = 1
                        if withheld:
                            probes["invalid_withheld"] = 1
                        if k > 0:
                            probes["selection_after_first_chunk"] = 1
                        nontrivial = later > 0 or withheld > 0
                        states.add((sc["cls"], str(sc["cands"]), stream["kind"], min(k, 3), ci))
                        break
                if not explained:
                    ci, exp, _, _ = options[0]
                    if len(got_sig) < len(exp):
                        kind = "item-missing"
                    elif len(got_sig) > len(exp):
                        kind = "extra-item"
                    else:
                        kind = "item-differs"
                    why = f" after data_received raised {type(errors[0][1]).__name__} in call #{errors[0][0]}" if errors else ""
                    add("Q1", f"queue-not-explained-by-selected-reader {kind}{' after-exception' if errors else ''}", f"selection in chunk {k}; candidate {sc['cands'][ci]} would give {len(exp)} items, queue has {len(got_sig)}; stream {stream['kind']}{why}")
        if absolute and not void and sc["cls"] == "payload":
            probes["clean_absolute_checked"] = 1
            if list(got) != sent:
                add("Q2", f"clean-stream-payloads-differ {stream['kind']}", f"meter sent {len(sent)} non-empty payloads, queue received {len(got)}; candidates {sc['cands']}")
        if absolute and not void and sc["cls"] == "message":
            probes["clean_absolute_checked"] = 1
            pays = [m.payload for m in got if m.payload]
            if pays != sent:
                add("Q2", f"clean-stream-payloads-differ {stream['kind']}", f"meter sent {len(sent)} non-empty payloads, messages on the queue carry {len(pays)}; candidates {sc['cands']}")
    if sc.get("bystander"):
        probes["bystander_protocol_instance"] = 1
    if sc.get("reuse"):
        probes["reconnect_with_same_candidate_sequence"] = 1
    if sc.get("cands_as") == "tuple":
        probes["candidates_as_tuple"] = 1
    if stall:
        probes["stalled_delivery"] = 1
    if chunk_as:
        probes[f"chunks_as_{chunk_as}"] = 1
    if sc.get("inline"):
        probes["candidates_built_inline"] = 1
    if remade:
        probes["connection_made_again_on_same_protocol"] = 1
    if reuse_failed:
        void = True
        viol = []
    probes[f"stream_{stream['kind']}"] = 1
    probes[f"class_{sc['cls']}"] = 1
    return {
        "tie": tie,
        "_objects": (readers, proto),
        "violations": viol,
        "void": void,
        "digest": prng.digest([len(got), prng.digest([g if isinstance(g, bytes) else _msg_sig(g) for g in got]), [v["sig"] for v in viol], void]),
        "nontrivial": nontrivial,
        "key": prng.digest([sc["cls"], sc["cands"], prng.digest(wire.hex()), sc["cuts"]]),
        "faults": {f"stream_{stream['kind']}": 1, "fragmentation_cuts": fragment.n_cuts(len(wire), sc["cuts"]), **({"connection_remade_on_same_protocol": 1} if remade else {})},
        "probes": probes,
        "states": states,
        "sim_s": sim_s,
        "summary": {"class": sc["cls"], "candidates": sc["cands"], "candidates_as": sc.get("cands_as", "list"), "earlier_connection_on_same_sequence": bool(sc.get("reuse")), "connection_made_again_before_chunk": remade, "stream_kind": stream["kind"], "stream_octets": len(wire), "stream_head_hex": wire[:40].hex(), "chunks": len(chunks), "queue_items": len(got), "virtual_seconds": round(sim_s, 3)},
    }


def summarise(sc):
    return {"class": sc["cls"], "candidates": sc["cands"], "candidates_as": sc.get("cands_as", "list"), "earlier_connection_on_same_sequence": bool(sc.get("reuse")), "stream_kind": sc["stream"]["kind"]}


def candidates(sc):
    for simpler in fragment.simpler(sc["cuts"]):
        yield dict(copy.deepcopy(sc), cuts=simpler)
    if sc["cuts"]["m"] == "list":
        for red in shrink.list_reductions(sc["cuts"]["at"]):
            yield dict(copy.deepcopy(sc), cuts=fragment.keep(sc["cuts"], {"m": "list", "at": red} if red else {"m": "whole"}))
    elif sc["cuts"]["m"] == "fixed":
        yield dict(copy.deepcopy(sc), cuts=fragment.keep(sc["cuts"], {"m": "whole"}))
    if sc.get("bystander"):
        yield {k: v for k, v in copy.deepcopy(sc).items() if k != "bystander"}
    if sc.get("reuse"):
        yield {k: v for k, v in copy.deepcopy(sc).items() if k != "reuse"}
    if sc.get("remade"):
        yield {k: v for k, v in copy.deepcopy(sc).items() if k != "remade"}
        if sc["remade"].get("lost_first"):
            yield dict(copy.deepcopy(sc), remade=dict(sc["remade"], lost_first=False))
    if sc.get("cands_as"):
        yield {k: v for k, v in copy.deepcopy(sc).items() if k != "cands_as"}
    for red in shrink.list_reductions(sc["cands"]):
        if red:
            yield dict(copy.deepcopy(sc), cands=red)
    st = sc["stream"]
    if "c02" in st:
        for red in shrink.list_reductions(st["c02"]["items"]):
            c = copy.deepcopy(sc)
            c["stream"]["c02"]["items"] = red
            yield c
    if "c05" in st:
        for red in shrink.list_reductions(st["c05"]["readouts"]):
            if red:
                c = copy.deepcopy(sc)
                c["stream"]["c05"]["readouts"] = red
                yield c
    if "c16" in st:
        sub = dict(st["c16"], cuts={"m": "whole"})
        for cand in c16.candidates(sub):
            c = copy.deepcopy(sc)
            c["stream"]["c16"] = {k: cand[k] for k in ("reader", "cfg", "noise", "noise_kind", "clean")}
            yield c
    if "wire" in st:
        for w in hdlc_wires.shrink_candidates(st["wire"], st["cfg"][0]):
            c = copy.deepcopy(sc)
            c["stream"]["wire"] = w
            yield c
