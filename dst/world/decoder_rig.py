"""Rig A helpers: AutoDecoder priming, message-object construction through the real readers."""
from __future__ import annotations

from dst.world import hdlc_ref, messages

_PRIMERS = None


def decoder_names():
    from han.autodecoder import AutoDecoder

    return [n for n, _ in AutoDecoder.payload_decoder_functions]


def primers():
    """decoder name -> genuine payload (hex) that makes a fresh AutoDecoder remember that decoder."""
    global _PRIMERS
    if _PRIMERS is None:
        from han.autodecoder import AutoDecoder

        table = {}
        for e in messages.corpus():
            d = AutoDecoder()
            try:
                d.decode_message_payload(e["data"])
            except Exception:  # noqa: BLE001
                continue
            name = d.previous_success_decoder
            if name and name not in table:
                table[name] = e["data"].hex()
        _PRIMERS = table
    return _PRIMERS


def as_hdlc_frame(payload: bytes):
    """A real HdlcFrame carrying `payload`, obtained through the real reader (octet stuffing on)."""
    from han.hdlc import HdlcFrameReader

    if not payload or len(payload) > 2030:
        return None
    octets = hdlc_ref.build_frame(b"\x03", b"\x21", 0x13, payload)
    wire = b"\x7e" + hdlc_ref.stuff(octets) + b"\x7e"
    frames = HdlcFrameReader(True, False).read(wire)
    if len(frames) != 1 or frames[0].payload != payload:
        return None
    return frames[0]


def as_dlms(payload: bytes):
    from han.common import DlmsMessage

    return DlmsMessage(payload)


def as_readout(block: bytes, ident: bytes | None = None):
    """A real DataReadout whose data block is `block`, obtained through the real ModeDReader.
    `ident` is the identification line without line end (default /ABC5sim); when the reader does not
    accept it as an identification line the DataReadout is built directly from the bytes."""
    from han.dlde import DataReadout, ModeDReader

    if b"!" in block or b"/" in block:
        return None
    head = ident if ident else b"/ABC5sim"
    if b"\n" in head or not head.startswith(b"/"):
        return None
    text = head + b"\r\n" + block + (b"" if block.endswith(b"\n") or not block else b"\r\n") + b"!\r\n"
    try:
        got = ModeDReader().read(text)
    except Exception:  # noqa: BLE001
        return None
    if len(got) != 1:
        if ident:
            try:
                return DataReadout(text)  # "built directly from bytes" - what a caller with its own framing would do
            except Exception:  # noqa: BLE001
                return None
        return None
    return got[0]
