"""Entry point: ./check <property|selftest|replay> ..."""
from __future__ import annotations

import argparse
import os
import sys

ROOT = os.path.dirname(os.path.dirname(os.path.abspath(__file__)))
sys.path.insert(0, ROOT)
sys.dont_write_bytecode = True


def main(argv) -> int:
    from dst.core import env, runner

    if argv and argv[0] == "replay":
        return runner.replay_file(argv[1])
    ap = argparse.ArgumentParser()
    ap.add_argument("target")
    ap.add_argument("--tier", default=os.environ.get("VERIF_TIER") or "quick", choices=["quick", "thorough"])
    ap.add_argument("--replay")
    ap.add_argument("--runs", type=int)
    ap.add_argument("--workers", type=int)
    ap.add_argument("--budget", type=float)
    args = ap.parse_args(argv)
    try:
        if args.replay:
            return runner.replay_file(args.replay)
        if args.target == "setup":
            repo = env.setup()
            import construct  # noqa: F401
            import han.autodecoder, han.dlde, han.hdlc, han.meter_connection  # noqa: F401,E401

            # trusted base sanity: published check values of the two CRCs, and a captured frame
            from dst.world import hdlc_ref, p1_ref

            assert hdlc_ref.fcs16_bits(b"123456789") == 0x906E, "FCS-16 (CRC-16/X-25) check value"
            assert p1_ref.crc16_arc_bits(b"123456789") == 0xBB3D, "CRC-16/ARC check value"
            frame = bytes.fromhex("a00a01020110141e")  # not necessarily valid: only exercises parse_header
            assert hdlc_ref.parse_header(hdlc_ref.build_frame(b"\x03", b"\x21", 0x13, b"abc")).control == 0x13
            assert hdlc_ref.is_intact(hdlc_ref.build_frame(b"\x03", b"\x21", 0x13, b"abc"))
            assert hdlc_ref.unstuff(hdlc_ref.stuff(bytes(range(256)))) == bytes(range(256))
            del frame
            captured = ["a00c0102011027a00201e7de", "a02a410883130413e6e7000f40000000000101020309060100010700ff060000067d02020f00161b1c05",
                        "a027010201105a87e6e7000f40000000090c07e4020f06011922ff8000000201060000157eea5e"]
            assert all(hdlc_ref.is_intact(bytes.fromhex(h)) for h in captured), "captured frames must be intact by the reference predicate"
            assert hdlc_ref.is_intact(hdlc_ref.unstuff(bytes.fromhex("a00d0102011063ab7d5e7d5d7d23932d")))
            print(f"setup ok: han from {repo}, python {sys.version.split()[0]}; trusted-base CRC check values ok")
            return 0
        if args.target == "selftest":
            from dst.core import selftest

            return selftest.main(args)
        return runner.run_property(args.target.upper(), args.tier, args.runs, args.workers, args.budget)
    except env.HarnessError as ex:
        print(f"HARNESS-ERROR {ex}")
        return 2
    except Exception:  # noqa: BLE001 - a crash of the machinery is never a verdict
        import traceback

        traceback.print_exc()
        print("HARNESS-ERROR unexpected exception in the verification machinery")
        return 2


if __name__ == "__main__":
    sys.exit(main(sys.argv[1:]))
