"""One integer decides everything: seed derivation for runs."""
from __future__ import annotations

import hashlib
import os
import random

DEFAULT_SEED = 20260927


def verif_seed() -> int:
    raw = os.environ.get("VERIF_SEED", "")
    try:
        return int(raw) if raw.strip() else DEFAULT_SEED
    except ValueError:
        return DEFAULT_SEED


def run_seed(seed: int, prop: str, tier: str, index: int, stream: str = "") -> int:
    """Seed of run `index` - a pure function of (VERIF_SEED, property, tier, index)."""
    text = f"{seed}:{prop}:{tier}:{index}:{stream}".encode()
    return int.from_bytes(hashlib.sha256(text).digest()[:8], "big")


def rng_for(seed: int, prop: str, tier: str, index: int, stream: str = "") -> random.Random:
    return random.Random(run_seed(seed, prop, tier, index, stream))


def digest(obj) -> str:
    """Stable digest of a JSON-able object (no PRNG, no clock)."""
    import json

    return hashlib.sha256(
        json.dumps(obj, sort_keys=True, separators=(",", ":"), default=_default).encode()
    ).hexdigest()[:16]


def _default(o):
    if isinstance(o, (bytes, bytearray)):
        return o.hex()
    if isinstance(o, (set, frozenset)):
        return sorted(o)
    return repr(o)
