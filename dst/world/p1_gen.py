"""P1 / IEC 62056-21 mode D meter + line model: well-formed readouts, faults, noise grammar.
Independent of `han`."""
from __future__ import annotations

import string

from dst.world import p1_ref

UPPER = string.ascii_uppercase
LETTERS = string.ascii_letters
WORD = string.ascii_letters + string.digits + "_"
ID_CHARS = p1_ref.ID_CHARS.decode("ascii")
# data characters: printable ASCII without the two characters the standard forbids in data
DATA_CHARS = "".join(chr(c) for c in range(0x20, 0x7F) if chr(c) not in "/!")

OBIS = ["1-0:1.8.0", "1-0:2.8.0", "1-0:3.8.0", "1-0:4.8.0", "1-0:1.7.0", "1-0:2.7.0", "1-0:21.7.0", "1-0:41.7.0", "1-0:61.7.0", "1-0:32.7.0", "1-0:52.7.0", "1-0:72.7.0", "1-0:31.7.0", "1-0:51.7.0", "1-0:71.7.0"]
UNITS = ["kWh", "kvarh", "kW", "kvar", "V", "A"]


def ident(rng) -> str:
    out = "/" + rng.choice(UPPER) + rng.choice(UPPER) + rng.choice(LETTERS) + rng.choice(string.digits)
    for _ in range(rng.choice([0, 0, 0, 1, 2])):
        out += "\\" + rng.choice(WORD)
    n = rng.choice([0, 0, 3, 4, 8, 16, rng.randint(0, 16)])
    out += "".join(rng.choice(ID_CHARS) for _ in range(n))
    return out


def data_line(rng) -> str:
    r = rng.random()
    if r < 0.6:
        v = f"{rng.randrange(10**6):06d}.{rng.randrange(1000):03d}"
        return f"{rng.choice(OBIS)}({v}*{rng.choice(UNITS)})"
    if r < 0.7:
        return f"0-0:1.0.0({rng.randrange(100):02d}{rng.randint(1, 12):02d}{rng.randint(1, 28):02d}{rng.randrange(24):02d}{rng.randrange(60):02d}{rng.randrange(60):02d}W)"
    if r < 0.8:
        return f"0-0:96.1.{rng.randrange(2)}({''.join(rng.choice('0123456789ABCDEF') for _ in range(rng.randint(2, 32)))})"
    if r < 0.9:
        return ""
    first = rng.choice([c for c in DATA_CHARS if c not in " "])
    return first + "".join(rng.choice(DATA_CHARS) for _ in range(rng.randint(0, 70)))


def readout_spec(rng, seq=None, size: str = "any") -> dict:
    if size == "any":
        size = rng.choice(["empty", "small", "small", "typical", "typical", "large"])
    n = {"empty": 0, "small": rng.randint(1, 4), "typical": rng.randint(15, 35), "large": rng.randint(60, 180)}[size]
    lines = [data_line(rng) for _ in range(n)]
    if seq is not None:
        lines.insert(rng.randint(0, len(lines)), f"0-0:96.13.0({seq:08d})")
    return {"ident": ident(rng), "lines": lines, "ck": "good" if rng.random() < 0.8 else "none", "blank": rng.random() < 0.8}


def build(spec: dict) -> bytes:
    return p1_ref.build_readout(spec["ident"].encode("latin-1"), [line.encode("latin-1") for line in spec["lines"]], spec.get("ck", "good"), spec.get("blank", True))


def well_formed(spec: dict) -> bool:
    """Is this spec in the domain of 'well-formed readout' (C05/C16/C13)?"""
    raw = build(spec)
    if len(raw) >= 7000:
        return False
    if not p1_ref.STRICT_IDENT.match(p1_ref.first_line(raw)):
        return False
    if spec.get("ck", "good") not in ("good", "none"):
        return False
    return all(all(c in DATA_CHARS for c in line) for line in spec["lines"])


# -- noise grammar (C14, C16, C19) ---------------------------------------------------------------

STRUCT = [0x2F, 0x21, 0x0A, 0x0D, 0x7E, 0x7D]


def noise(rng, max_len: int = 400) -> tuple[bytes, str]:
    kind = rng.choice(["random", "structural", "ident_like", "ident_without_end", "start_char_without_lf", "truncated_readout", "nonascii_ident", "bad_end_line", "bang_in_ident", "long_ident_like", "ident_then_end_only", "near_limit_readout", "long", "empty"])
    if kind == "empty":
        return b"", kind
    if kind == "random":
        return rng.randbytes(rng.randint(1, max_len)), kind
    if kind == "structural":
        n = rng.randint(1, max_len)
        return bytes(rng.choice(STRUCT) if rng.random() < 0.35 else (rng.randrange(0x80, 0x100) if rng.random() < 0.2 else rng.randrange(0x20, 0x7F)) for _ in range(n)), kind
    if kind == "ident_like":
        return ("/" + "".join(rng.choice(LETTERS + string.digits + " \\") for _ in range(rng.randint(0, 12)))).encode() + rng.choice([b"\r\n", b"\n", b""]), kind
    if kind == "near_limit_readout":
        # a readout whose collected size is within a few octets of the reader's 8191-octet limit when its end line arrives
        head = b"/ABC5xyz\r\n"
        end = rng.choice([b"!\r\n", b"!1A2B\r\n", b"!\n"])
        target = 8191 + rng.randint(-9, 9) - (len(end) if rng.random() < 0.7 else 0)
        body = bytearray(head)
        line = b"1-0:1.8.0(000123.456*kWh)\r\n"
        while len(body) + len(line) <= target:
            body += line
        pad = target - len(body)
        if pad >= 2:
            body += b"x" * (pad - 2) + b"\r\n"
        return bytes(body) + end, kind
    if kind == "ident_then_end_only":
        return ident(rng).encode("latin-1") + rng.choice([b"\r\n", b"\n"]) + rng.choice([b"!\r\n", b"!7A1C\r\n", b"!\n"]) * rng.randint(1, 2), kind
    if kind == "long_ident_like":
        body = bytes(rng.choice(b"ABCDEFGHIJKLMNOPQRSTUVWXYZ0123456789 _-.") for _ in range(rng.choice([17, 24, 28, 40, 64])))
        ctl = rng.choice([b"", b"\x01", b"\x07", b"\x7f", b"\x1b"])
        pos = rng.randint(0, len(body))
        return b"/" + rng.choice([b"ABC5", b"KMP5 ", b"Abc9"]) + body[:pos] + ctl + body[pos:] + rng.choice([b"\r\n", b"\n"]) + rng.choice([b"", b"1-0:1.8.0(1*kWh)\r\n!\r\n"]), kind
    if kind == "ident_without_end":
        spec = readout_spec(rng, size="small")
        raw = build(spec)
        return raw[: raw.index(b"!")], kind
    if kind == "start_char_without_lf":
        return b"/" + bytes(rng.randrange(0x20, 0x7F) for _ in range(rng.randint(0, 80))).replace(b"\n", b" "), kind
    if kind == "truncated_readout":
        raw = build(readout_spec(rng))
        return raw[: rng.randint(1, len(raw) - 1)], kind
    if kind == "nonascii_ident":
        return b"/" + bytes(rng.choice([0xFF, 0xFE, 0x80, 0xC3, 0x41, 0x35]) for _ in range(rng.randint(1, 8))) + b"\r\n" + rng.choice([b"", b"!\r\n", b"!12\xff4\r\n"]), kind
    if kind == "bad_end_line":
        spec = readout_spec(rng, size="small")
        raw = build(dict(spec, ck="none"))
        tail = rng.choice([b"zz", b"12G4", b"\xff\xfe", b" 1 2", b"0x1F", b"-1", b"1" * 40, b"!!", b"\x00\x00"])
        return raw[:-2] + tail + b"\r\n", kind
    if kind == "bang_in_ident":
        return b"/AB" + rng.choice([b"!", b"C5!x", b"c5\\!"]) + rng.choice([b"\r\n", b"\xff\r\n", b"\r\n\x80\r\n!\r\n"]), kind
    # long
    n = rng.randint(8192, 20000)
    base = bytes(rng.randrange(0x20, 0x7F) for _ in range(257))
    body = (base * (n // 257 + 1))[:n]
    return rng.choice([b"", b"/", b"/ABC5\r\n"]) + body.replace(b"\n", b" ") + rng.choice([b"", b"\r\n"]), "long"


# -- readout-level faults (C04) ---------------------------------------------------------------------

CK_FAULTS = ["wrong_hex", "zero", "lower_good", "lower_wrong", "short", "long", "nonhex", "good", "none", "wrong_by_one"]


def faulty_checksum(rng, spec: dict, kind: str) -> str:
    good = p1_ref.crc16_arc_bits(build(dict(spec, ck="none"))[:-2])
    if kind == "good":
        return "%04X" % good
    if kind == "none":
        return ""
    if kind == "zero":
        return "0000"
    if kind == "lower_good":
        return "%04x" % good
    if kind == "lower_wrong":
        return "%04x" % (good ^ (1 << rng.randrange(16)))
    if kind == "wrong_by_one":
        return "%04X" % ((good + rng.choice([1, -1])) & 0xFFFF)
    if kind == "wrong_hex":
        v = rng.randrange(0x10000)
        return "%04X" % (v if v != good else v ^ 1)
    if kind == "short":
        return ("%04X" % good)[: rng.randint(1, 3)]
    if kind == "long":
        return "%04X" % good + rng.choice("0123456789ABCDEF")
    return "".join(rng.choice("GHXYZ-+ .") for _ in range(4))
