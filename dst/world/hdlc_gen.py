"""HDLC meter + line model: well-formed frames of every field shape, wire assembly with ground
truth, frame-level and line-level faults, noise grammar.  Independent of `han`."""
from __future__ import annotations

from dst.world import hdlc_ref
from dst.world.hdlc_ref import ESC, FLAG

CONFIGS = [(False, False), (False, True), (True, False), (True, True)]  # (octet stuffing, abort detection)
HOT_OCTETS = [0x7E, 0x7D, 0x5E, 0x5D]


def rand_bytes(rng, n: int, hot: float = 0.0) -> bytes:
    if hot <= 0:
        return rng.randbytes(n)
    return bytes(rng.choice(HOT_OCTETS) if rng.random() < hot else rng.randrange(256) for _ in range(n))


def rand_address(rng, n_octets: int) -> bytes:
    return hdlc_ref.make_address(n_octets, rng.getrandbits(7 * n_octets))


def info_length(rng, max_info: int) -> int:
    r = rng.random()
    if r < 0.10:
        return 0
    if r < 0.25:
        return rng.choice([1, 2, 3, 4])
    if r < 0.80:
        return rng.randint(5, min(120, max_info))
    if r < 0.97:
        return rng.randint(5, min(600, max_info))
    return rng.choice([max_info, max_info - 1, rng.randint(600, max_info)])


ADDR_1_TO_4 = [1, 1, 1, 2, 3, 4]
ADDR_ANY = [1, 1, 1, 2, 3, 4, 4, 5, 6, 8]  # ISO/IEC 13239 extends address fields recursively: no fixed limit


def frame_fields(rng, seq: int | None = None, hot: float | None = None, small: bool = False, addr=ADDR_1_TO_4) -> dict:
    nd = rng.choice(addr)
    ns = rng.choice(addr)
    head = 2 + nd + ns + 1
    max_info = 0x7FF - head - 4
    n = info_length(rng, max_info)
    if small:
        n = min(n, 40)
    if hot is None:
        hot = rng.choice([0.0, 0.0, 0.05, 0.3])
    info = bytearray(rand_bytes(rng, n, hot))
    if seq is not None and n >= 4:
        info[0:4] = bytes((0xA5, (seq >> 8) & 0xFF, seq & 0xFF, 0x5A))
    return {
        "t": "frame",
        "dest": rand_address(rng, nd).hex(),
        "src": rand_address(rng, ns).hex(),
        "ctl": rng.randrange(256),
        "fmt": 0xA if rng.random() < 0.8 else rng.randrange(16),
        "seg": rng.random() < 0.15,
        "info": bytes(info).hex(),
    }


def build(item: dict) -> bytes:
    if item["t"] == "rawframe":
        return bytes.fromhex(item["hex"])
    return hdlc_ref.build_frame(
        bytes.fromhex(item["dest"]), bytes.fromhex(item["src"]), item["ctl"], bytes.fromhex(item["info"]), item.get("fmt", 0xA), item.get("seg", False)
    )


def header_len(item: dict) -> int:
    return 2 + len(item["dest"]) // 2 + len(item["src"]) // 2 + 1 + 2


def in_c02_domain(octets: bytes, item: dict, stuffing: bool, abort: bool) -> bool:
    """Frames for which C02 promises delivery under the given reader configuration."""
    if stuffing:
        return True
    if FLAG in octets[: header_len(item)]:
        return False
    if abort:
        if octets.endswith(bytes([ESC])) or bytes([ESC, FLAG]) in octets:
            return False
    return True


def clean_frame(rng, stuffing: bool, abort: bool, seq=None, flag_free: bool = False, small: bool = False) -> dict:
    while True:
        item = None
        if rng.random() < 0.004:
            item = special_frame(rng, seq)  # rare check-sequence values: 0000, FFFF, flag/escape octets
        if item is None:
            item = frame_fields(rng, seq, small=small)
        octets = build(item)
        if not in_c02_domain(octets, item, stuffing, abort):
            continue
        if flag_free and FLAG in octets:
            continue
        if stuffing and rng.random() < 0.1:
            # a sender may also escape the control characters of its async map (RFC 1662 ACCM: 0x00..0x1F)
            item["extra_esc"] = sorted({rng.randrange(0x20) for _ in range(rng.randint(1, 4))})
        return item


def assemble(items, stuffing: bool):
    """-> (wire, spans). spans: one dict per item with wire positions; frames carry their octets."""
    wire = bytearray()
    spans = []
    for i, it in enumerate(items):
        start = len(wire)
        octets = None
        if it["t"] == "raw":
            wire += bytes.fromhex(it["hex"])
        elif it["t"] == "flags":
            wire += bytes([FLAG]) * it["n"]
        else:
            octets = build(it)
            wire += hdlc_ref.stuff(octets, set(it.get("extra_esc") or ())) if stuffing else octets
        spans.append({"i": i, "t": it["t"], "start": start, "end": len(wire), "octets": octets})
    return bytes(wire), spans


# -- frame-level faults: a well-formed frame turned into a specific kind of bad frame ------------


def corrupt_frame(rng, item: dict, kind: str) -> dict:
    o = bytearray(build(item))
    if kind == "len_rewrite_keep_fcs":  # wrong length field, FCS left as it was (now also wrong)
        new = (o[0] << 8 | o[1]) & 0xF800 | rng.randrange(0x800)
        o[0], o[1] = new >> 8, new & 0xFF
    elif kind == "len_rewrite_good_fcs":  # wrong length field, FCS recomputed so it is good
        new = (o[0] << 8 | o[1]) & 0xF800 | ((len(o) + rng.choice([-2, -1, 1, 2, 7])) & 0x7FF)
        o[0], o[1] = new >> 8, new & 0xFF
        o[-2:] = hdlc_ref.fcs_octets(bytes(o[:-2]))
    elif kind == "hcs_rewrite_good_fcs":  # header check sequence wrong, frame check sequence recomputed: still intact by length + FCS
        h = header_len(item)
        if len(o) > h + 2:
            o[h - 1 - rng.randrange(2)] ^= 1 << rng.randrange(8)
            o[-2:] = hdlc_ref.fcs_octets(bytes(o[:-2]))
    elif kind == "fcs_corrupt":
        o[-1 - rng.randrange(2)] ^= 1 << rng.randrange(8)
    elif kind == "hdr_only":  # cut after the HCS: running FCS is "good", length is not
        o = o[: header_len(item)]
    elif kind == "cut_mid":
        o = o[: rng.randint(1, max(1, len(o) - 1))]
    elif kind == "append_junk":
        o += rand_bytes(rng, rng.randint(1, 6), 0.2)
    elif kind == "bitflip":
        p = rng.randrange(len(o))
        o[p] ^= 1 << rng.randrange(8)
    return {"t": "rawframe", "hex": bytes(o).hex(), "fault": kind}


FRAME_FAULTS = ["len_rewrite_keep_fcs", "len_rewrite_good_fcs", "hcs_rewrite_good_fcs", "fcs_corrupt", "hdr_only", "cut_mid", "append_junk", "bitflip"]


# -- line-level faults applied to the assembled wire ---------------------------------------------

LINE_FAULTS = ["bitflip", "byte_drop", "byte_insert", "span_dup", "burst_noise", "flag_loss", "flag_insert", "escape_before_flag", "truncate"]


def draw_line_fault(rng, wire_len: int) -> dict:
    kind = rng.choice(LINE_FAULTS)
    f = {"k": kind, "pos": rng.randrange(max(1, wire_len))}
    if kind == "bitflip":
        f["bit"] = rng.randrange(8)
    elif kind == "byte_insert":
        f["val"] = rng.choice(HOT_OCTETS + [rng.randrange(256)])
    elif kind in ("span_dup", "burst_noise", "truncate"):
        f["len"] = rng.randint(1, 24)
        if kind == "burst_noise":
            f["hex"] = rand_bytes(rng, f["len"], 0.15).hex()
    return f


def apply_line_faults(wire: bytes, faults) -> tuple[bytes, dict]:
    w = bytearray(wire)
    fired = {}
    for f in faults:
        if not w:
            break
        p = f["pos"] % len(w)
        k = f["k"]
        if k == "bitflip":
            w[p] ^= 1 << f["bit"]
        elif k == "byte_drop":
            del w[p]
        elif k == "byte_insert":
            w.insert(p, f["val"])
        elif k == "span_dup":
            w[p:p] = w[p : p + f["len"]]
        elif k == "burst_noise":
            w[p : p + f["len"]] = bytes.fromhex(f["hex"])
        elif k == "truncate":
            del w[p : p + f["len"]]
        elif k in ("flag_loss", "flag_insert", "escape_before_flag"):
            q = w.find(FLAG, p)
            if q < 0:
                q = w.find(FLAG)
            if k == "flag_insert":
                w.insert(p, FLAG)
            elif q >= 0 and k == "flag_loss":
                del w[q]
            elif q >= 0:
                w.insert(q, ESC)
            else:
                continue
        fired[k] = fired.get(k, 0) + 1
    return bytes(w), fired


# -- noise grammar (C14, C16) -------------------------------------------------------------------------


def noise(rng, stuffing: bool, max_len: int = 300) -> tuple[bytes, str]:
    kind = rng.choice(["random", "random_hot", "frame_start", "ends_in_escape", "truncated_frame", "abort_seq", "overlong", "flags_and_junk", "escape_run", "empty"])
    if kind == "empty":
        return b"", kind
    if kind == "random":
        return rng.randbytes(rng.randint(1, max_len)), kind
    if kind == "random_hot":
        return rand_bytes(rng, rng.randint(1, max_len), rng.choice([0.1, 0.3, 0.6])), kind
    if kind == "frame_start":
        fr = build(frame_fields(rng, small=True))
        return bytes([FLAG]) + fr[: rng.randint(1, len(fr))], kind
    if kind == "ends_in_escape":
        return rand_bytes(rng, rng.randint(0, 40), 0.2) + rng.choice([b"\x7e", b""]) + rand_bytes(rng, rng.randint(0, 8), 0.0).replace(b"\x7e", b"\x01") + bytes([ESC]), kind
    if kind == "truncated_frame":
        fr = build(frame_fields(rng))
        w = hdlc_ref.stuff(fr) if stuffing else fr
        return bytes([FLAG]) * rng.randint(1, 2) + w[: rng.randint(1, len(w))], kind
    if kind == "abort_seq":
        fr = build(frame_fields(rng, small=True))
        return bytes([FLAG]) + fr[: rng.randint(1, len(fr))] + bytes([ESC, FLAG]) * rng.randint(1, 2), kind
    if kind == "overlong":
        body = rng.randbytes(rng.randint(2048, 2600)).replace(b"\x7e", b"\x11")
        return bytes([FLAG]) + body, kind
    if kind == "flags_and_junk":
        out = bytearray()
        for _ in range(rng.randint(1, 12)):
            out += bytes([FLAG]) * rng.randint(1, 3) + rand_bytes(rng, rng.randint(0, 9), 0.2)
        return bytes(out), kind
    return bytes([ESC]) * rng.randint(1, 5) + rng.choice([b"", b"\x7e", b"\x7e\x7d"]), "escape_run"


# -- frames whose check sequences take rare values (0x0000, 0xFFFF, flag/escape octets ...) --------------

_FCS_TABLE = None
SPECIAL_SEQ = [b"\x00\x00", b"\xff\xff", b"\x7e\x7e", b"\x7d\x7d", b"\x7e\x00", b"\x00\x7e", b"\x7d\x5e", b"\x00\x7d", b"\x7d\x00", b"\x5e\x5d"]


def _fcs_table():
    global _FCS_TABLE
    if _FCS_TABLE is None:
        t = []
        for b in range(256):
            r = b
            for _ in range(8):
                r = (r >> 1) ^ 0x8408 if r & 1 else r >> 1
            t.append(r)
        _FCS_TABLE = t
    return _FCS_TABLE


def _fcs_fast(data: bytes, reg: int = 0xFFFF) -> int:
    t = _fcs_table()
    for b in data:
        reg = (reg >> 8) ^ t[(reg ^ b) & 0xFF]
    return reg


def special_frame(rng, seq=None):
    """A well-formed frame whose header check sequence or frame check sequence is one of SPECIAL_SEQ
    (searched with a table-driven FCS, confirmed by the bit-serial reference in build()). May return None."""
    want = rng.choice(SPECIAL_SEQ)
    info = bytearray(rand_bytes(rng, rng.choice([4, 6, 9, 20]), 0.1))
    if seq is not None:
        info[0:4] = bytes((0xA5, (seq >> 8) & 0xFF, seq & 0xFF, 0x5A))
    if rng.random() < 0.5:
        # header check sequence: search over control octet and a 2-octet source address
        total = 2 + 1 + 2 + 1 + 2 + len(info) + 2
        fmt = 0xA000 | total
        head0 = bytes((fmt >> 8, fmt & 0xFF, 0x03))
        base = _fcs_fast(head0)
        for a in range(128):
            for b in range(128):
                for ctl in (0x13, 0x10, 0x93, 0x73):
                    tail = bytes((a << 1, (b << 1) | 1, ctl))
                    v = _fcs_fast(tail, base) ^ 0xFFFF
                    if bytes((v & 0xFF, v >> 8)) == want:
                        return {"t": "frame", "dest": "03", "src": tail[:2].hex(), "ctl": ctl, "fmt": 0xA, "seg": False, "info": bytes(info).hex(), "special": "hcs=" + want.hex()}
        return None
    # frame check sequence: search over the last two information octets
    item = {"t": "frame", "dest": "03", "src": "21", "ctl": 0x13, "fmt": 0xA, "seg": False, "info": bytes(info).hex()}
    octets = build(item)
    base = _fcs_fast(octets[:-4])
    t = _fcs_table()
    for x in range(256):
        r1 = (base >> 8) ^ t[(base ^ x) & 0xFF]
        for y in range(256):
            v = ((r1 >> 8) ^ t[(r1 ^ y) & 0xFF]) ^ 0xFFFF
            if (v & 0xFF) == want[0] and (v >> 8) == want[1]:
                info[-2:] = bytes((x, y))
                item["info"] = bytes(info).hex()
                item["special"] = "fcs=" + want.hex()
                return item
    return None
