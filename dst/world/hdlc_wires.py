"""Faulty HDLC wires for C01 / C06 / C14: meter frames of every shape, frame-level faults, noise,
idle fill, line faults.  A wire scenario is {"items": [...], "faults": [...]} or {"raw": hex}."""
from __future__ import annotations

import copy

from dst.core import shrink
from dst.world import hdlc_gen

SMALL_ALPHABET = [0x7E, 0x7D, 0x01, 0x20, 0xA0, 0x07, 0x5E, 0x03]


def draw(rng, cfg) -> dict:
    stuffing, abort = cfg
    r = rng.random()
    if r < 0.12:
        n = rng.randint(1, 48)
        return {"raw": bytes(rng.choice(SMALL_ALPHABET) for _ in range(n)).hex(), "class": "small_alphabet"}
    if r < 0.2:
        return {"raw": hdlc_gen.rand_bytes(rng, rng.randint(1, 400), rng.choice([0.0, 0.1, 0.4])).hex(), "class": "pure_noise"}
    if r < 0.215:
        # a backlog: hundreds of short frames (a few of them damaged) that a stalled consumer receives in very few calls
        items = [{"t": "flags", "n": 1}]
        fired = {"long_run_of_short_frames": 1}
        for seq in range(rng.randint(300, 1500)):
            fr = hdlc_gen.frame_fields(rng, seq, small=True)
            fr["info"] = fr["info"][: 2 * rng.choice([0, 0, 1, 2, 4, 6])]
            if rng.random() < 0.03:
                kind = rng.choice(hdlc_gen.FRAME_FAULTS)
                fr = hdlc_gen.corrupt_frame(rng, fr, kind)
                fired[kind] = fired.get(kind, 0) + 1
            items.append(fr)
            items.append({"t": "flags", "n": 1})
        return {"items": items, "faults": [], "class": "long_run_of_short_frames", "gen_faults": fired}
    items = [{"t": "flags", "n": rng.choice([0, 1, 1, 2])}] if rng.random() < 0.8 else []
    fired = {}
    for seq in range(rng.choice([1, 1, 2, 3, 5, 8])):
        k = rng.random()
        fr = (hdlc_gen.special_frame(rng, seq) if rng.random() < 0.01 else None) or hdlc_gen.frame_fields(rng, seq, small=rng.random() < 0.6, addr=hdlc_gen.ADDR_ANY)
        if k < 0.5:
            items.append(fr)
        elif k < 0.8:
            kind = rng.choice(hdlc_gen.FRAME_FAULTS)
            items.append(hdlc_gen.corrupt_frame(rng, fr, kind))
            fired[kind] = fired.get(kind, 0) + 1
        elif k < 0.9:
            data, kind = hdlc_gen.noise(rng, stuffing)
            items.append({"t": "raw", "hex": data.hex(), "fault": "noise_" + kind})
            fired["noise_" + kind] = fired.get("noise_" + kind, 0) + 1
        else:
            items.append({"t": "flags", "n": rng.randint(2, 40)})
            fired["idle_flag_fill"] = fired.get("idle_flag_fill", 0) + 1
        if rng.random() < 0.85:
            items.append({"t": "flags", "n": rng.choice([1, 1, 1, 2, 3])})
        else:
            fired["flag_missing_between"] = fired.get("flag_missing_between", 0) + 1
    wire, _ = hdlc_gen.assemble(items, stuffing)
    faults = []
    if rng.random() < 0.5:
        for _ in range(rng.choice([1, 1, 2, 4])):
            faults.append(hdlc_gen.draw_line_fault(rng, len(wire)))
    return {"items": items, "faults": faults, "class": "frames_with_faults", "gen_faults": fired}


def wire_of(sc: dict, stuffing: bool):
    """-> (wire bytes, dict of fault kinds that fired)."""
    if "raw" in sc:
        return bytes.fromhex(sc["raw"]), {sc.get("class", "raw"): 1}
    wire, _ = hdlc_gen.assemble(sc["items"], stuffing)
    wire, fired = hdlc_gen.apply_line_faults(wire, sc.get("faults") or ())
    for it in sc["items"]:
        if it.get("fault"):
            fired[it["fault"]] = fired.get(it["fault"], 0) + 1
    return wire, fired


def shrink_candidates(sc: dict, stuffing: bool):
    """Smaller wire scenarios: structural first, then raw octets."""
    if "raw" not in sc:
        for red in shrink.list_reductions(sc.get("faults") or []):
            yield dict(copy.deepcopy(sc), faults=red)
        for red in shrink.list_reductions(sc["items"]):
            yield dict(copy.deepcopy(sc), items=red)
        wire, _ = wire_of(sc, stuffing)
        yield {"raw": wire.hex(), "class": "raw_from_shrink"}
        return
    data = bytes.fromhex(sc["raw"])
    for red in shrink.bytes_reductions(data, 300):
        yield {"raw": red.hex(), "class": sc.get("class", "raw")}
    for i, b in enumerate(data[:64]):
        for simple in (0x00, 0x01):
            if b not in (0x7E, 0x7D, simple) and b > simple:
                yield {"raw": (data[:i] + bytes([simple]) + data[i + 1 :]).hex(), "class": sc.get("class", "raw")}
                break
