"""C05 - P1: every readout on a clean stream is delivered once, however it is chunked.

Rig R, fault-free class: well-formed readouts back to back (optionally after the tail of a readout
- the reader joined mid-transmission), streams far longer than the reader's 8 KiB guard, and
fragmentations that never happen to fall between two readouts.  Strict equality oracle.
"""
from __future__ import annotations

import copy

from dst.core import prng, shrink
from dst.world import fragment, p1_gen, reader_rig

PROP = "C05"
LEVEL = "exploration"
TECHNIQUE = "deterministic simulation of P1 meter -> fragmenting transport -> real ModeDReader over long streams; seeded readouts and fragmentation incl. fixed chunk sizes that never align with readout boundaries; ground-truth equality oracle"
DESIGN_REF = "DESIGN.md section 4.4"
LEVEL_TEXT = (
    "Seeded search over clean streams of 1..400 well-formed readouts (0..180 data lines, with/without checksum, 30 B..7 KB each, "
    "streams up to hundreds of KiB) x optional leading readout tail x fragmentations (whole, bytewise, fixed sizes 1..65536 incl. "
    "sizes just around the readout length, seeded cut lists, cuts between CR and LF / after '!'); the returned readouts must be "
    "byte-identical to what the meter sent, each valid, in order, once. Sampling, not proof."
)
RUNS = {"quick": 1600, "thorough": 30000}
CHUNK = {"quick": 20, "thorough": 100}
BUDGET_S = {"quick": 90, "thorough": 1500}
RULE = (
    "run = seeded clean stream (1..400 readouts, optional leading tail) x one fragmentation. Non-trivial = at least two readouts sent "
    "and at least one cut strictly inside a readout; distinct = distinct (stream, cuts) digest."
)
STATE_MEASURE = "distinct (hunt mode at call boundary, buffered-octets bucket) pairs"
REAL = ["han.dlde.ModeDReader", "han.dlde.DataReadout", "han.dlde.Ident"]
STUB = ["P1 meter (readout builder from IEC 62056-21 / DSMR)", "line (no faults in this class)", "transport fragmentation"]
ASSUMPTIONS = [
    "well-formed = strict identification grammar, data characters exclude '/' and '!', checksum correct (upper-case hex) or absent, each readout < 7000 octets",
    "nothing is demanded about when within the call sequence a readout is returned",
]
MUST_FIRE = {"quick": ["stream_over_8k", "never_in_hunt_mode_for_8k", "cut_between_cr_lf", "leading_tail", "bystander_reader_instance", "over_1000_readouts_in_one_call", "identical_readouts_back_to_back"], "thorough": ["stream_over_8k", "never_in_hunt_mode_for_8k", "cut_between_cr_lf", "leading_tail", "stream_over_100k"]}


def gen(rng, tier, index):
    mode = rng.choice(["short", "short", "mixed", "long_fixed", "long_fixed", "long_random"])
    if rng.random() < 0.03:
        mode = "many_tiny"
    if mode == "short":
        n = rng.randint(1, 6)
        specs = [p1_gen.readout_spec(rng, seq if rng.random() < 0.7 else None) for seq in range(n)]
    elif mode == "many_tiny":
        # more than a thousand minimal readouts, delivered in very few calls (a consumer that was stalled and gets the backlog at once)
        n = rng.randint(1100, 1600)
        specs = [{"ident": "/ABC5", "lines": ["0-0:96.13.0(%08d)" % seq], "ck": "none", "blank": False} for seq in range(n)]
    elif mode == "mixed":
        n = rng.randint(5, 60)
        specs = [p1_gen.readout_spec(rng, seq) for seq in range(n)]
    else:
        n = rng.randint(20, 120 if tier == "quick" else 400)
        base = p1_gen.readout_spec(rng, None, rng.choice(["typical", "typical", "large"]))
        specs = []
        for seq in range(n):  # a real meter: same layout, changing values
            s = copy.deepcopy(base)
            s["lines"] = [p1_gen.data_line(rng) if rng.random() < 0.3 else line for line in s["lines"]]
            s["lines"].insert(0, f"0-0:96.13.0({seq:08d})")
            specs.append(s)
    specs = [s for s in specs if p1_gen.well_formed(s)] or [p1_gen.readout_spec(rng, 0, "small")]
    if mode != "many_tiny" and rng.random() < 0.12:
        # an idle meter without a clock line repeats itself: the same readout, byte for byte, several times in a row
        at = rng.randrange(len(specs))
        specs[at : at + 1] = [copy.deepcopy(specs[at]) for _ in range(rng.choice([2, 2, 3, 5]))]
    tail = None
    if rng.random() < 0.3:
        t = p1_gen.readout_spec(rng, None)
        raw = p1_gen.build(t)
        tail = {"of": t, "from": rng.randint(1, len(raw) - 1)}
    lens = [len(p1_gen.build(s)) for s in specs]
    total = sum(lens)
    if mode == "many_tiny":
        cuts = rng.choice([{"m": "whole"}, {"m": "fixed", "k": 65536}, {"m": "fixed", "k": 40000}])
    elif mode == "long_fixed":
        typical = lens[0]
        k = rng.choice([typical + rng.randint(1, 40), typical - rng.randint(1, 40), 700, 1024, 4096, 8191, 8192, 65536, 64, 255, 256, 7, 3])
        cuts = {"m": "fixed", "k": max(1, k)}
    elif total > 30000:
        cuts = {"m": "fixed", "k": rng.choice(fragment.FIXED_SIZES)} if rng.random() < 0.6 else {"m": "list", "at": sorted(rng.randrange(1, total) for _ in range(rng.randint(1, 200)))}
    else:
        pos = 0 if tail is None else len(p1_gen.build(tail["of"])) - tail["from"]
        hot = []
        for s, ln in zip(specs, lens):
            raw = p1_gen.build(s)
            hot += [pos, pos + raw.index(b"!"), pos + raw.index(b"!") + 1, pos + raw.index(b"\r\n") + 1, pos + ln - 1]
            pos += ln
        cuts = fragment.draw(rng, total + (0 if tail is None else pos - total), hot)
    sc = {"readouts": specs, "tail": tail, "cuts": cuts}
    if rng.random() < 0.15:
        other = p1_gen.build(p1_gen.readout_spec(rng, None, "small"))
        sc["bystander"] = {"wire": (other[: rng.randint(1, len(other))] + p1_gen.noise(rng, 80)[0]).hex()}
    if rng.random() < 0.08 and cuts.get("m") != "whole":
        sc["cuts"] = dict(cuts, **{"as": rng.choice(["bytearray", "reused_bytearray"])})
    yield sc


def wire_of(sc):
    parts = []
    if sc.get("tail"):
        parts.append(p1_gen.build(sc["tail"]["of"])[sc["tail"]["from"] :])
    sent = [p1_gen.build(s) for s in sc["readouts"]]
    lead = len(parts[0]) if parts else 0
    return b"".join(parts + sent), sent, lead


def execute(sc):
    if not all(p1_gen.well_formed(s) for s in sc["readouts"]) or (sc.get("tail") and sc["tail"]["from"] < 1):
        return {"violations": [], "digest": "void", "nontrivial": False, "void": True, "key": "void", "faults": {}, "probes": {}, "states": (), "sim_s": 0.0, "summary": {}}
    wire, sent, lead = wire_of(sc)
    reader = reader_rig.make_reader("p1")
    states = set()
    track = {"since_hunt": 0, "max_since_hunt": 0, "prev": 0}

    def probe(rd, chunk, probes):
        hunt = bool(rd.is_in_hunt_mode)
        if hunt:
            track["since_hunt"] = 0
        else:
            track["since_hunt"] += len(chunk)
            track["max_since_hunt"] = max(track["max_since_hunt"], track["since_hunt"])
        states.add((hunt, min(track["since_hunt"] // 2048, 8)))
        if chunk.endswith(b"\r"):
            probes["cut_between_cr_lf"] = probes.get("cut_between_cr_lf", 0) + 1

    by = sc.get("bystander")
    fed = reader_rig.feed(reader, wire, sc["cuts"], probe, (reader_rig.make_reader("p1"), bytes.fromhex(by["wire"])) if by else None)
    viol = []

    def add(clause, facts, detail):
        sig = f"C05/{clause} {facts}"
        if not any(v["sig"] == sig for v in viol):
            viol.append({"sig": sig, "detail": detail})

    big = "stream>8k" if len(wire) > 8191 else "stream<=8k"
    if fed.changed_later is not None:
        add("R", "returned-list-changed-by-later-call", "the list returned by read() call #%d held %d readouts when it was returned and %d after later calls: what a call returned has to stay what it was (exactly once, in order, for a caller that keeps the lists)" % fed.changed_later)
    if fed.error is not None:
        idx, ex = fed.error
        add("exception", f"{type(ex).__name__} {reader_rig.exc_site(ex)}", f"read() call #{idx} raised {ex!r} on a clean stream")
    else:
        try:
            got = [m.as_bytes for m in fed.messages]
        except Exception as ex:  # noqa: BLE001
            got = None
            add("exception", f"{type(ex).__name__} as_bytes", repr(ex))
        if got is not None and got != sent:
            if len(got) < len(sent):
                kind = "readout-lost"
            elif len(got) > len(sent):
                kind = "extra-readout"
            else:
                kind = "readout-altered"
            first = next((i for i, (a, b) in enumerate(zip(got, sent)) if a != b), min(len(got), len(sent)))
            add("D1", f"{kind} {big}", f"sent {len(sent)} readouts ({len(wire)} octets), got {len(got)}; first difference at readout #{first}; cuts {str(sc['cuts'])[:60]}")
        elif got is not None:
            for n, m in enumerate(fed.messages):
                try:
                    ok = m.is_valid
                except Exception as ex:  # noqa: BLE001
                    add("exception", f"{type(ex).__name__} is_valid", repr(ex))
                    break
                if not ok:
                    add("D2", "clean-readout-reported-invalid", f"readout #{n}: {sent[n][:60]!r}...")
                    break
    spans = []
    pos = lead
    for s in sent:
        spans.append((pos, pos + len(s)))
        pos += len(s)
    inside = fragment.strictly_inside(sc["cuts"], len(wire), spans)
    probes = dict(fed.probes)
    if len(wire) > 8191:
        probes["stream_over_8k"] = 1
    if len(wire) > 100000:
        probes["stream_over_100k"] = 1
    if len(sent) > 1000 and fragment.n_cuts(len(wire), sc["cuts"]) < 3:
        probes["over_1000_readouts_in_one_call"] = 1
    if track["max_since_hunt"] > 8191:
        probes["never_in_hunt_mode_for_8k"] = 1
    if sc.get("tail"):
        probes["leading_tail"] = 1
    if by:
        probes["bystander_reader_instance"] = 1
    if sc["cuts"].get("as"):
        probes["chunks_as_bytearray"] = 1
    if any(a == b for a, b in zip(sent, sent[1:])):
        probes["identical_readouts_back_to_back"] = 1
    probes[f"frag_{sc['cuts']['m']}"] = 1
    return {
        "violations": viol,
        "digest": prng.digest([len(fed.messages), prng.digest([m.as_bytes.hex() for m in fed.messages]) if fed.error is None else "err", [v["sig"] for v in viol]]),
        "nontrivial": len(sent) >= 2 and inside > 0,
        "key": prng.digest([prng.digest(wire.hex()), sc["cuts"]]),
        "faults": {"fragmentation_cuts": fragment.n_cuts(len(wire), sc["cuts"]), "cuts_inside_readouts": inside, "join_midstream": 1 if sc.get("tail") else 0},
        "probes": probes,
        "states": states,
        "sim_s": len(wire) / reader_rig.LINE_RATE,
        "summary": {"readouts": len(sent), "stream_octets": len(wire), "first_readout_head": sent[0][:80].decode("latin-1"), "readout_sizes": [len(s) for s in sent[:8]], "leading_tail_octets": lead, "cuts": sc["cuts"] if sc["cuts"]["m"] != "list" else {"m": "list", "at": sc["cuts"]["at"][:16]}, "returned": len(fed.messages)},
    }


def summarise(sc):
    return {"readouts": len(sc["readouts"])}


def candidates(sc):
    for simpler in fragment.simpler(sc["cuts"]):
        yield dict(copy.deepcopy(sc), cuts=simpler)
    if sc.get("tail"):
        yield dict(copy.deepcopy(sc), tail=None)
    if sc.get("bystander"):
        yield {k: v for k, v in copy.deepcopy(sc).items() if k != "bystander"}
    for red in shrink.list_reductions(sc["readouts"]):
        if red:
            yield dict(copy.deepcopy(sc), readouts=red)
    if sc["cuts"]["m"] == "list":
        for red in shrink.list_reductions(sc["cuts"]["at"]):
            yield dict(copy.deepcopy(sc), cuts=fragment.keep(sc["cuts"], {"m": "list", "at": red} if red else {"m": "whole"}))
    elif sc["cuts"]["m"] == "fixed":
        yield dict(copy.deepcopy(sc), cuts=fragment.keep(sc["cuts"], {"m": "whole"}))
    # make all readouts the same simple one, then shrink its lines
    first = sc["readouts"][0]
    if any(r != first for r in sc["readouts"]):
        yield dict(copy.deepcopy(sc), readouts=[copy.deepcopy(first) for _ in sc["readouts"]])
    else:
        for red in shrink.list_reductions(first["lines"]):
            yield dict(copy.deepcopy(sc), readouts=[dict(copy.deepcopy(first), lines=red) for _ in sc["readouts"]])
        if first["ident"] != "/ABC5":
            yield dict(copy.deepcopy(sc), readouts=[dict(copy.deepcopy(first), ident="/ABC5") for _ in sc["readouts"]])


def trace(sc):
    wire, sent, lead = wire_of(sc)
    yield f"stream: {len(sent)} readouts, {len(wire)} octets, leading tail {lead}"
    yield from reader_rig.trace_feed("p1", None, wire, sc["cuts"])
