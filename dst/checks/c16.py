"""C16 - readers resynchronise after noise with bounded loss.

Rig R: a noise prefix drawn from a grammar (random octets, look-alike message starts, prefixes ending
in an escape octet, truncated messages, abort sequences, over-long runs; for P1 also identification
lines without end, '/' without line end, > 8 KiB of either) is followed by 2..40 clean, uniquely
numbered messages delimited as on a real line.  Every clean message the property promises must be
returned valid, byte-identical, in order, exactly once; and no frame returned may be altered.
"""
from __future__ import annotations

import copy

from dst.core import prng, shrink
from dst.world import fragment, hdlc_gen, hdlc_oracle, p1_gen, reader_rig
from dst.world.hdlc_ref import ESC, FLAG

PROP = "C16"
LEVEL = "exploration"
TECHNIQUE = "deterministic simulation: noise/fault prefix injected before a clean message stream, delivered through a fragmenting transport to the real HdlcFrameReader / ModeDReader; oracle = promised clean messages are a once-only ordered subsequence of the valid output + wire-embedding check"
DESIGN_REF = "DESIGN.md section 4.10"
LEVEL_TEXT = (
    "Seeded search over noise prefixes (12 HDLC kinds, 11 P1 kinds, incl. > 8 KiB) x 2..40 clean messages x fragmentations with cuts forced "
    "around the noise/clean boundary x reader configurations. The loss allowance is exactly the property's (first message; without "
    "stuffing 2047 octets plus one frame length, flag-free frames only). Sampling, not proof."
)
RUNS = {"quick": 24000, "thorough": 500000}
CHUNK = {"quick": 200, "thorough": 1000}
BUDGET_S = {"quick": 90, "thorough": 1500}
RULE = (
    "run = reader kind/configuration x one noise prefix x 2..40 clean numbered messages x one fragmentation. Non-trivial = noise non-empty, "
    "at least one promised message, and the reader was not in pristine hunt state when the first clean octet arrived or a cut fell inside "
    "the noise/clean junction; distinct = distinct (reader, configuration, wire, cuts) digest."
)
STATE_MEASURE = "distinct (reader kind, noise kind, hunt mode and pending escape when the clean suffix begins) tuples"
REAL = ["han.hdlc.HdlcFrameReader", "han.dlde.ModeDReader", "han.hdlc.HdlcFrame", "han.dlde.DataReadout", "han.fastframecheck"]
STUB = ["meter (HDLC frame / P1 readout builders)", "noise + line fault grammar", "transport fragmentation"]
ASSUMPTIONS = [
    "without stuffing the promise covers frames that contain no flag octet (with abort detection: that also do not end in 0x7D) and start more than 2047 + longest-clean-frame octets after the noise",
    "an exception escaping read()/is_valid makes the run void here (C14's violation)",
]
MUST_FIRE = {"quick": ["hdlc_pending_escape_at_junction", "hdlc_in_frame_at_junction", "p1_collecting_at_junction", "p1_noise_over_8k", "noise_bogus_frame_to_max_aligned"], "thorough": ["hdlc_pending_escape_at_junction", "hdlc_in_frame_at_junction", "p1_collecting_at_junction", "p1_noise_over_8k", "noise_overlong"]}


def gen(rng, tier, index):
    if rng.random() < 0.6:
        stuffing, abort = rng.choice(hdlc_gen.CONFIGS)
        data, kind = hdlc_gen.noise(rng, stuffing)
        if rng.random() < 0.25:  # several disturbances in a row
            more = [hdlc_gen.noise(rng, stuffing) for _ in range(rng.choice([1, 1, 2]))]
            data = data + b"".join(d for d, _ in more)
            kind = "+".join([kind] + [k for _, k in more])
        n = rng.choice([2, 2, 3, 5, 8, 40]) if stuffing else rng.choice([8, 40, 80, 120])
        items = []
        for seq in range(n):
            it = hdlc_gen.clean_frame(rng, stuffing, abort, seq=seq, flag_free=not stuffing, small=n > 8 or not stuffing)
            if len(it["info"]) < 8:
                it["info"] = (bytes((0xA5, seq >> 8, seq & 0xFF, 0x5A)) + bytes.fromhex(it["info"])).hex()
                if not hdlc_gen.in_c02_domain(hdlc_gen.build(it), it, stuffing, abort) or (not stuffing and FLAG in hdlc_gen.build(it)):
                    it = {"t": "frame", "dest": "03", "src": "21", "ctl": 0x13, "fmt": 0xA, "seg": False, "info": bytes((0xA5, seq >> 8, seq & 0xFF, 0x5A)).hex()}
            items.append({"t": "flags", "n": rng.choice([1, 1, 1, 2, 3])})
            items.append(it)
        items.append({"t": "flags", "n": rng.choice([1, 2])})
        if not stuffing and rng.random() < 0.3:
            # A bogus frame start whose length field (8) is already exceeded, so no flag can complete it: the
            # reader must run into the maximum frame length. Half of the time the filler is sized so that
            # octet 2048 of the bogus frame is a flag of the clean traffic (fault placed at the boundary).
            clean_wire, _ = hdlc_gen.assemble(items, False)
            hdr = bytes((0x7E, 0xA0, 0x08, 0x03, 0x21, 0x13)) + rng.randbytes(2).replace(b"\x7e", b"\x11") + b"\x01\x02"
            flags = [i for i, b in enumerate(clean_wire) if b == FLAG and 1838 <= i <= 2038]
            if flags and rng.random() < 0.5:
                k = 2038 - rng.choice(flags)
                kind = "bogus_frame_to_max_aligned"
            else:
                k = rng.randint(0, 300)
                kind = "bogus_frame_to_max"
            data = hdr + rng.randbytes(k).replace(b"\x7e", b"\x22")
        sc = {"reader": "hdlc", "cfg": [stuffing, abort], "noise": data.hex(), "noise_kind": kind, "clean": items}
    else:
        data, kind = p1_gen.noise(rng)
        if rng.random() < 0.25:  # several disturbances in a row
            more = [p1_gen.noise(rng) for _ in range(rng.choice([1, 1, 2]))]
            data = data + b"".join(d for d, _ in more)
            kind = "+".join([kind] + [k for _, k in more])
        n = rng.choice([2, 2, 3, 5, 12, 40])
        specs = [p1_gen.readout_spec(rng, seq, rng.choice(["small", "small", "typical"]) if n > 5 else "any") for seq in range(n)]
        specs = [s if p1_gen.well_formed(s) else p1_gen.readout_spec(rng, i, "small") for i, s in enumerate(specs)]
        sc = {"reader": "p1", "cfg": None, "noise": data.hex(), "noise_kind": kind, "clean": specs}
    nl = len(data)
    total = len(wire_of(sc)[0])
    cuts = fragment.draw(rng, total, [nl, nl, nl, max(1, nl - 1), nl + 1])
    if cuts["m"] == "list" and nl and rng.random() < 0.7:
        cuts["at"] = sorted(cuts["at"] + [min(total - 1, max(1, nl + rng.choice([-1, 0, 0, 1])))])
    sc["cuts"] = cuts
    yield sc


def wire_of(sc):
    noise = bytes.fromhex(sc["noise"])
    if sc["reader"] == "hdlc":
        clean_wire, spans = hdlc_gen.assemble(sc["clean"], sc["cfg"][0])
        sent = [(len(noise) + s["start"], s["octets"]) for s in spans if s["t"] == "frame"]
        return noise + clean_wire, sent
    sent = []
    pos = len(noise)
    out = [noise]
    for spec in sc["clean"]:
        raw = p1_gen.build(spec)
        sent.append((pos, raw))
        out.append(raw)
        pos += len(raw)
    return b"".join(out), sent


def in_domain(sc) -> bool:
    if sc["reader"] == "hdlc":
        stuffing, abort = sc["cfg"]
        items = sc["clean"]
        seen = set()
        for i, it in enumerate(items):
            if it["t"] == "frame":
                o = hdlc_gen.build(it)
                if not hdlc_gen.in_c02_domain(o, it, stuffing, abort) or o in seen:
                    return False
                seen.add(o)
                if i == 0 or items[i - 1]["t"] != "flags" or items[i - 1]["n"] < 1 or i + 1 >= len(items) or items[i + 1]["t"] != "flags" or items[i + 1]["n"] < 1:
                    return False
            elif it["t"] != "flags":
                return False
        return True
    raws = [p1_gen.build(s) for s in sc["clean"]]
    return all(p1_gen.well_formed(s) for s in sc["clean"]) and len(set(raws)) == len(raws)


def execute(sc):
    if not in_domain(sc):
        return {"violations": [], "digest": "void", "nontrivial": False, "void": True, "key": "void", "faults": {}, "probes": {}, "states": (), "sim_s": 0.0, "summary": {}}
    wire, sent = wire_of(sc)
    noise_len = len(sc["noise"]) // 2
    kind = sc["reader"]
    cfg = sc["cfg"]
    reader = reader_rig.make_reader(kind, tuple(cfg) if cfg else None)
    probes = {}
    states = set()
    seen = {"pos": 0, "junction": None}

    def probe(rd, chunk, pr):
        before = seen["pos"]
        seen["pos"] += len(chunk)
        if before <= noise_len <= seen["pos"] and seen["junction"] is None and seen["pos"] == noise_len:
            seen["junction"] = reader_rig.reader_state(rd)

    # An exception out of read() is C14's violation, but the line keeps delivering afterwards (an event loop
    # logs it and goes on), so the loss it causes is judged here like any other loss.
    fed = reader_rig.feed(reader, wire, sc["cuts"], probe, keep_going=True)
    viol = []
    tag = kind if kind == "p1" else f"hdlc cfg={'S' if cfg[0] else 's'}{'A' if cfg[1] else 'a'}"

    def add(clause, facts, detail):
        sig = f"C16/{clause} {tag} {facts}"
        if not any(v["sig"] == sig for v in viol):
            viol.append({"sig": sig, "detail": detail})

    # which clean messages does the property promise?
    if kind == "hdlc" and not cfg[0]:
        longest = max((len(o) for _, o in sent), default=0)
        required = [o for pos, o in sent if FLAG not in o and not (cfg[1] and o.endswith(bytes([ESC]))) and pos > noise_len + 2047 + longest]
    else:
        required = [o for _, o in sent[1:]]
    void = False
    got_valid = []
    all_bytes = []
    if not void:
        try:
            for m in fed.messages:
                b = m.as_bytes
                all_bytes.append(b)
                if m.is_valid:
                    got_valid.append(b)
        except Exception:  # noqa: BLE001 - C14's business
            void = True
    if not void:
        j = 0
        missing = None
        for n, r in enumerate(required):
            while j < len(got_valid) and got_valid[j] != r:
                j += 1
            if j >= len(got_valid):
                missing = n
                break
            j += 1
        if missing is not None:
            r = required[missing]
            where = "never-returned" if r not in all_bytes else ("returned-invalid" if r not in got_valid else "out-of-order")
            exc = f"; read() raised {fed.errors} time(s), first {fed.error[1]!r}" if fed.errors else ""
            add("L", f"promised-message-{where} noise={sc['noise_kind']}{' after-exception' if fed.errors else ''}", f"promised clean message #{missing} of {len(required)} ({len(r)} octets) {where}; {len(got_valid)} valid of {len(all_bytes)} returned; noise {noise_len} octets{exc}")
        else:
            for r in required:
                if got_valid.count(r) != 1:
                    add("L", f"promised-message-duplicated noise={sc['noise_kind']}", f"a promised message was returned {got_valid.count(r)} times")
                    break
        if kind == "hdlc":
            idx = hdlc_oracle.embed_stuffed(wire, all_bytes) if cfg[0] else hdlc_oracle.embed_unstuffed(wire, all_bytes)
            if idx is not None:
                add("E", f"returned-frame-altered noise={sc['noise_kind']}", f"returned frame #{idx} ({all_bytes[idx].hex()[:60]}) is not a flag-delimited stretch of the wire")
    j = seen["junction"]
    if j is not None:
        if kind == "hdlc":
            if j[1]:
                probes["hdlc_pending_escape_at_junction"] = 1
            if not j[0]:
                probes["hdlc_in_frame_at_junction"] = 1
        elif not j[0]:
            probes["p1_collecting_at_junction"] = 1
        states.add((kind, sc["noise_kind"].split("+")[0], j))
    if kind == "p1" and noise_len > 8191:
        probes["p1_noise_over_8k"] = 1
    for nk in sc["noise_kind"].split("+"):
        probes[f"noise_{nk}"] = 1
    if "+" in sc["noise_kind"]:
        probes["several_disturbances_in_a_row"] = 1
    probes[f"reader_{tag.replace(' ', '_')}"] = 1
    junction_cut = sc["cuts"]["m"] != "whole"
    return {
        "violations": viol,
        "void": void,
        "digest": prng.digest([[b.hex()[:64] for b in all_bytes], len(got_valid), [v["sig"] for v in viol], void]),
        "nontrivial": noise_len > 0 and bool(required) and (junction_cut or (j is not None and (not j[0] or bool(j[1])))),
        "key": prng.digest([kind, cfg, prng.digest(wire.hex()), sc["cuts"]]),
        "faults": {**{f"noise_{nk}": 1 for nk in sc["noise_kind"].split("+")}, "fragmentation_cuts": fragment.n_cuts(len(wire), sc["cuts"])},
        "probes": probes,
        "states": states,
        "sim_s": len(wire) / reader_rig.LINE_RATE,
        "summary": {"reader": tag, "noise_kind": sc["noise_kind"], "noise_head_hex": sc["noise"][:64], "noise_octets": noise_len, "clean_messages": len(sent), "promised": len(required), "returned": len(all_bytes), "returned_valid": len(got_valid), "cuts": sc["cuts"] if sc["cuts"]["m"] != "list" else {"m": "list", "at": sc["cuts"]["at"][:16]}},
    }


def summarise(sc):
    return {"reader": sc["reader"], "noise_kind": sc["noise_kind"]}


def candidates(sc):
    for simpler in fragment.simpler(sc["cuts"]):
        yield dict(copy.deepcopy(sc), cuts=simpler)
    if sc["cuts"]["m"] == "list":
        for red in shrink.list_reductions(sc["cuts"]["at"]):
            yield dict(copy.deepcopy(sc), cuts=fragment.keep(sc["cuts"], {"m": "list", "at": red} if red else {"m": "whole"}))
    elif sc["cuts"]["m"] == "fixed":
        yield dict(copy.deepcopy(sc), cuts=fragment.keep(sc["cuts"], {"m": "whole"}))
    noise = bytes.fromhex(sc["noise"])
    for red in shrink.bytes_reductions(noise, 200):
        yield dict(copy.deepcopy(sc), noise=red.hex())
    if sc["reader"] == "hdlc":
        items = sc["clean"]
        # remove (flags, frame) pairs from the end, then from the front
        frames = [i for i, it in enumerate(items) if it["t"] == "frame"]
        for i in reversed(frames):
            yield dict(copy.deepcopy(sc), clean=items[: i - 1] + items[i + 1 :])
        for i, it in enumerate(items):
            if it["t"] == "flags" and it["n"] > 1:
                c = copy.deepcopy(sc)
                c["clean"][i]["n"] = 1
                yield c
            if it["t"] == "frame":
                info = bytes.fromhex(it["info"])
                if len(info) > 4:
                    c = copy.deepcopy(sc)
                    c["clean"][i]["info"] = info[:4].hex()
                    yield c
                for key, simple in (("dest", "03"), ("src", "21"), ("ctl", 0x13), ("fmt", 0xA), ("seg", False), ("extra_esc", None)):
                    if it.get(key) not in (simple, None):
                        c = copy.deepcopy(sc)
                        c["clean"][i][key] = simple
                        yield c
    else:
        for red in shrink.list_reductions(sc["clean"]):
            if len(red) >= 1:
                yield dict(copy.deepcopy(sc), clean=red)
        for i, spec in enumerate(sc["clean"]):
            keep = [line for line in spec["lines"] if line.startswith("0-0:96.13.0")]
            if len(spec["lines"]) > len(keep):
                c = copy.deepcopy(sc)
                c["clean"][i]["lines"] = keep
                yield c
            if spec["ident"] != "/ABC5":
                c = copy.deepcopy(sc)
                c["clean"][i]["ident"] = "/ABC5"
                yield c


def trace(sc):
    wire, sent = wire_of(sc)
    yield f"noise[{len(sc['noise']) // 2}]={sc['noise'][:120]} then {len(sent)} clean messages; wire {len(wire)} octets"
    yield from reader_rig.trace_feed(sc["reader"], tuple(sc["cfg"]) if sc["cfg"] else None, wire, sc["cuts"])
