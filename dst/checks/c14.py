"""C14 - readers and messages never raise on line noise, and remain usable afterwards.

Rig R + P: noise strings over the full alphabet (biased to the structural characters of both
protocols) are delivered, fragmented, to both readers directly and to both protocol classes with
[HDLC, P1] / [P1, HDLC] candidates; every message accessor is evaluated.  Each run then continues
with a clean message stream that must be processed according to C16.
"""
from __future__ import annotations

import asyncio
import copy

from dst.core import prng, shrink, stepbudget
from dst.checks import c16
from dst.world import fragment, hdlc_gen, hdlc_wires, p1_gen, reader_rig

PROP = "C14"
LEVEL = "exploration"
TERMINATION_IS_PROPERTY = True  # a wall-clock hang found by the watchdog is a violation here, not only a harness error
TECHNIQUE = "deterministic simulation: seeded line-noise injection through a fragmenting transport into the real readers and asyncio protocol objects; oracle = no escaping exception from read()/accessors/data_received within a deterministic step budget, then the C16 resynchronisation oracle on a clean suffix"
DESIGN_REF = "DESIGN.md section 4.8"
LEVEL_TEXT = (
    "Seeded search over concatenations of 1..4 noise pieces from the HDLC and P1 noise grammars (octets >= 0x80, '!' in identification "
    "lines, hex/non-hex end lines, escape runs, over-long runs) x fragmentations x {HDLC reader in 4 configurations, P1 reader, payload and "
    "message protocols with both candidate orders}; exceptions are attributed to the innermost han/ frame. Sampling, not proof."
)
RUNS = {"quick": 20000, "thorough": 600000}
CHUNK = {"quick": 300, "thorough": 2000}
BUDGET_S = {"quick": 90, "thorough": 1500}
RULE = (
    "run = one target (reader or protocol + candidate order) x noise of 1..4 grammar pieces x clean suffix of 2..5 messages x one fragmentation. "
    "Non-trivial = noise contains at least one structural character of the target's protocol family and at least one call was made while the "
    "reader held partial state or at least one message was returned; distinct = distinct (target, wire, cuts) digest."
)
STATE_MEASURE = "distinct (target, noise kinds, messages returned?, any invalid?) tuples"
REAL = ["han.hdlc.HdlcFrameReader", "han.dlde.ModeDReader", "han.dlde.DataReadout", "han.hdlc.HdlcFrame", "han.meter_connection.SmartMeterMessagePayloadProtocol", "han.meter_connection.SmartMeterMessageProtocol", "asyncio.Queue/Future (CPython)"]
STUB = ["noise grammar / line", "transport fragmentation", "transport object handed to protocols", "event loop (VLoop, only to own the protocol's future and queue)"]
ASSUMPTIONS = [
    "step budget 200000 + 400 interpreter events per input octet per run (readers use ~10 per octet): exceeding it is reported as non-termination",
    "the clean suffix is judged by the C16 oracle on a fresh reader fed the identical stream (readers are deterministic)",
]
MUST_FIRE = {"quick": ["noise_nonascii_ident", "noise_bad_end_line", "noise_bang_in_ident", "noise_faulty_frames", "target_proto_payload", "target_proto_message", "messages_with_accessors_checked", "bystander_reader_instance"], "thorough": ["noise_nonascii_ident", "noise_bad_end_line", "noise_bang_in_ident", "noise_faulty_frames", "target_proto_payload", "target_proto_message", "messages_with_accessors_checked"]}

TARGETS = ["hdlc", "hdlc", "p1", "p1", "p1", "proto_payload", "proto_message"]


def gen(rng, tier, index):
    target = rng.choice(TARGETS)
    cfg = list(rng.choice(hdlc_gen.CONFIGS))
    pieces = []
    kinds = []
    family = "p1" if target == "p1" else ("hdlc" if target == "hdlc" else rng.choice(["p1", "hdlc"]))
    for _ in range(rng.choice([1, 1, 2, 3, 4])):
        if (rng.random() < 0.8) == (family == "p1"):
            data, kind = p1_gen.noise(rng, 120)
            if kind == "long" and rng.random() < 0.7:
                data, kind = p1_gen.noise(rng, 120)
        elif rng.random() < 0.35:
            # damaged but frame-shaped traffic (header-only, wrong length, bad FCS, junk appended ...)
            w = hdlc_wires.draw(rng, tuple(cfg))
            data, _ = hdlc_wires.wire_of(w, cfg[0])
            data, kind = data[:600], "faulty_frames"
        else:
            data, kind = hdlc_gen.noise(rng, cfg[0], 120)
        pieces.append(data.hex())
        kinds.append(kind)
    # clean suffix in the sense of C16, for the family the target reads
    sub = None
    for attempt in range(20):
        cand = next(c16.gen(rng, tier, index))
        if cand["reader"] == family:
            sub = cand
            break
    if sub is None:
        sub = next(c16.gen(rng, tier, index))
        family = sub["reader"]
    if family == "hdlc":
        cfg = sub["cfg"]
        sub["clean"] = sub["clean"][: 2 * 5 + 1] if len(sub["clean"]) > 11 and cfg[0] else sub["clean"]
    else:
        sub["clean"] = sub["clean"][:5]
    noise = b"".join(bytes.fromhex(p) for p in pieces)
    sub["noise"] = noise.hex()
    sub["noise_kind"] = "+".join(kinds)
    total = len(c16.wire_of(sub)[0])
    hot = [len(noise), len(noise) + 1] + [i + 1 for i, b in enumerate(noise) if b in (0x2F, 0x21, 0x0A, 0x7E, 0x7D)][:200]
    sub["cuts"] = fragment.draw(rng, total, hot)
    sc = {"target": target if target in ("proto_payload", "proto_message") else family, "cands": rng.choice(["HP", "PH"]), "c16": sub, "kinds": kinds}
    if rng.random() < 0.2:
        # another connection in the same process, same reader class, its own (partly clean) traffic
        other = p1_gen.build(p1_gen.readout_spec(rng, None, "small")) if family == "p1" else b"\x7e" + hdlc_gen.build(hdlc_gen.frame_fields(rng, small=True)) + b"\x7e"
        sc["bystander"] = (other * 3 + (p1_gen.noise(rng, 60)[0] if family == "p1" else hdlc_gen.noise(rng, cfg[0], 60)[0])).hex()
    yield sc


class _Transport(asyncio.Transport):
    def get_extra_info(self, name, default=None):
        return ("sim", 1) if name == "peername" else default

    def close(self):
        pass


def _accessors(msg, viol_add, target):
    for name in ("is_valid", "payload", "as_bytes", "message_type"):
        try:
            getattr(msg, name)
        except stepbudget.BudgetExceeded:
            raise
        except Exception as ex:  # noqa: BLE001
            viol_add("A", f"{type(msg).__name__}.{name} raised {type(ex).__name__} {reader_rig.exc_site(ex)}", f"{name} of a message returned by read() raised {ex!r}; message bytes {getattr(msg, '_readout', b'')[:60]!r}")


def execute(sc):
    sub = sc["c16"]
    if not c16.in_domain(sub):
        return {"violations": [], "digest": "void", "nontrivial": False, "void": True, "key": "void", "faults": {}, "probes": {}, "states": (), "sim_s": 0.0, "summary": {}}
    wire, sent = c16.wire_of(sub)
    noise_len = len(sub["noise"]) // 2
    target = sc["target"]
    viol = []
    probes = {}

    def add(clause, facts, detail):
        sig = f"C14/{clause} {target} {facts}"
        if not any(v["sig"] == sig for v in viol):
            viol.append({"sig": sig, "detail": detail})

    budget = 200_000 + 400 * len(wire)
    chunks = fragment.chunks(wire, sub["cuts"])
    returned = 0
    any_invalid = False
    partial_state_calls = 0
    raised = False
    loop = None
    # simulated process clock (always on): line rate plus the stalls the fragmentation spec puts before some deliveries
    clock = reader_rig.ProcessClock()
    stall = {}
    for k, sec in sub["cuts"].get("gaps") or ():
        stall[k % len(chunks)] = stall.get(k % len(chunks), 0.0) + float(sec)
    if stall:
        probes["stalled_delivery"] = 1
    chunk_as = sub["cuts"].get("as")
    rx = bytearray()

    def handed(chunk):
        if chunk_as == "bytearray":
            return bytearray(chunk)
        if chunk_as == "reused_bytearray":
            rx[:] = chunk  # one receive buffer, refilled before every call
            return rx
        return chunk

    if chunk_as:
        probes[f"chunks_as_{chunk_as}"] = 1
    try:
        with clock, stepbudget.StepBudget(budget) as sb:
            by = None
            if sc.get("bystander"):
                fam = sub["reader"]
                by = reader_rig.Bystander(reader_rig.make_reader(fam, tuple(sub["cfg"]) if sub["cfg"] else None), bytes.fromhex(sc["bystander"]))
                probes["bystander_reader_instance"] = 1
            if target in ("hdlc", "p1"):
                reader = reader_rig.make_reader(target, tuple(sub["cfg"]) if sub["cfg"] else None)
                pos = 0
                for idx, chunk in enumerate(chunks):
                    if by is not None:
                        by.step(idx)
                    clock.t += stall.get(idx, 0.0) + len(chunk) / reader_rig.LINE_RATE
                    try:
                        msgs = reader.read(handed(chunk))
                    except Exception as ex:  # noqa: BLE001
                        where = "noise" if pos < noise_len else "clean-suffix"
                        add("X", f"read raised {type(ex).__name__} {reader_rig.exc_site(ex)}", f"read() call #{idx} (stream offset {pos}, in {where}) raised {repr(ex)[:200]}")
                        raised = True
                        break
                    pos += len(chunk)
                    if not isinstance(msgs, list):
                        add("X", "read returned non-list", f"read() returned {type(msgs).__name__}")
                    for m in msgs:
                        returned += 1
                        _accessors(m, add, target)
                        try:
                            any_invalid = any_invalid or not m.is_valid
                        except Exception:  # noqa: BLE001
                            pass
                    if not reader.is_in_hunt_mode:
                        partial_state_calls += 1
            else:
                from dst.core.vloop import new_loop
                import han.meter_connection as mc
                from han.dlde import ModeDReader
                from han.hdlc import HdlcFrameReader

                loop = new_loop()
                asyncio.events._set_running_loop(loop)
                q = asyncio.Queue()
                cfg = sub["cfg"] or [False, True]
                cands = [HdlcFrameReader(*cfg), ModeDReader()]
                if sc["cands"] == "PH":
                    cands.reverse()
                cls = mc.SmartMeterMessagePayloadProtocol if target == "proto_payload" else mc.SmartMeterMessageProtocol
                proto = cls(q, cands)
                proto.connection_made(_Transport())
                pos = 0
                for idx, chunk in enumerate(chunks):
                    if by is not None:
                        by.step(idx)
                    clock.t += stall.get(idx, 0.0) + len(chunk) / reader_rig.LINE_RATE
                    try:
                        proto.data_received(handed(chunk))
                    except Exception as ex:  # noqa: BLE001
                        add("X", f"data_received raised {type(ex).__name__} {reader_rig.exc_site(ex)}", f"data_received() call #{idx} (stream offset {pos}, candidates {sc['cands']}) raised {repr(ex)[:200]}")
                        raised = True
                        break
                    pos += len(chunk)
                returned = q.qsize()
            steps = sb.count
    except stepbudget.BudgetExceeded:
        add("T", "step-budget-exceeded", f"more than {budget} interpreter events for {len(wire)} input octets: read()/accessors did not terminate in time")
        raised = True
        steps = budget
    finally:
        if loop is not None:
            asyncio.events._set_running_loop(None)
            loop.shutdown()
    if returned:
        probes["messages_with_accessors_checked"] = returned
    # remains usable: the clean suffix is processed according to C16
    if not raised and target in ("hdlc", "p1"):
        res = c16.execute(sub)
        for v in res["violations"]:
            add("U", "not-usable-after-noise " + v["sig"].split(" ", 1)[1], v["detail"])
    for k in sc.get("kinds", ()):
        probes[f"noise_{k}"] = 1
    probes[f"target_{target}"] = 1
    noise = bytes.fromhex(sub["noise"])
    struct = (0x2F, 0x21, 0x0A) if sub["reader"] == "p1" else (0x7E, 0x7D)
    return {
        "violations": viol,
        "digest": prng.digest([returned, any_invalid, [v["sig"] for v in viol]]),  # raw step counts stay out: first calls pay for lazy imports/regex caches
        "nontrivial": any(b in struct for b in noise) and (partial_state_calls > 0 or returned > 0),
        "key": prng.digest([target, sc["cands"], sub["cfg"], prng.digest(wire.hex()), sub["cuts"]]),
        "faults": dict({f"noise_{k}": 1 for k in sc.get("kinds", ())}, fragmentation_cuts=fragment.n_cuts(len(wire), sub["cuts"])),
        "probes": probes,
        "states": {(target, tuple(sc.get("kinds", ())), returned > 0, any_invalid)},
        "sim_s": len(wire) / reader_rig.LINE_RATE,
        "summary": {"target": target, "candidates": sc["cands"], "cfg": sub["cfg"], "noise_kinds": sc.get("kinds"), "noise_head": noise[:80].decode("latin-1"), "noise_octets": noise_len, "clean_messages": len(sent), "messages_returned": returned, "cuts": sub["cuts"] if sub["cuts"]["m"] != "list" else {"m": "list", "at": sub["cuts"]["at"][:16]}},
    }


def summarise(sc):
    return {"target": sc["target"]}


def candidates(sc):
    sub = sc["c16"]
    if sc.get("bystander"):
        yield {k: v for k, v in copy.deepcopy(sc).items() if k != "bystander"}
    for simpler in fragment.simpler(sub["cuts"]):
        c = copy.deepcopy(sc)
        c["c16"]["cuts"] = simpler
        yield c
    if sub["cuts"]["m"] != "whole":
        c = copy.deepcopy(sc)
        c["c16"]["cuts"] = fragment.keep(sub["cuts"], {"m": "whole"})
        yield c
    if sub["cuts"]["m"] == "list":
        for red in shrink.list_reductions(sub["cuts"]["at"]):
            if red:
                c = copy.deepcopy(sc)
                c["c16"]["cuts"] = fragment.keep(sub["cuts"], {"m": "list", "at": red})
                yield c
    # drop the clean suffix down to a minimum
    if sub["reader"] == "p1" and len(sub["clean"]) > 1:
        c = copy.deepcopy(sc)
        c["c16"]["clean"] = sub["clean"][:1]
        yield c
    if sub["reader"] == "hdlc" and len(sub["clean"]) > 3:
        c = copy.deepcopy(sc)
        c["c16"]["clean"] = sub["clean"][:3]
        yield c
    noise = bytes.fromhex(sub["noise"])
    for red in shrink.bytes_reductions(noise, 300):
        c = copy.deepcopy(sc)
        c["c16"]["noise"] = red.hex()
        yield c
    if sc["target"].startswith("proto"):
        c = copy.deepcopy(sc)
        c["target"] = sub["reader"]
        yield c


def trace(sc):
    yield f"target={sc['target']} candidates={sc['cands']}"
    yield from c16.trace(sc["c16"])
