"""C02 - HDLC: every well-formed frame on a clean stream is delivered once, in order.

Rig R, fault-free class: the only "fault" is how the transport fragments the stream (and optional
flag-free noise before the first flag, when the reader is new).  Strict equality oracle against
what the meter model's builder was given.
"""
from __future__ import annotations

import copy

from dst.core import prng, shrink
from dst.world import fragment, hdlc_gen, hdlc_oracle, hdlc_ref, reader_rig

PROP = "C02"
LEVEL = "exploration"
TECHNIQUE = "deterministic simulation of meter -> line -> fragmenting transport -> real HdlcFrameReader; seeded frames/fill/fragmentation incl. boundary-adversarial cuts; ground-truth equality oracle"
DESIGN_REF = "DESIGN.md section 4.2"
LEVEL_TEXT = (
    "Seeded search over clean streams of well-formed frames (all field shapes, payloads biased to flag/escape octets, 0..2038-octet "
    "information fields, 1..4-octet addresses) x inter-frame fill x leading noise x fragmentations (whole, bytewise, fixed, random, "
    "cuts placed around escape octets / HCS / flags) x four reader configurations; returned frames must equal what the builder was "
    "given. Sampling, not proof."
)
RUNS = {"quick": 60000, "thorough": 1500000}
CHUNK = {"quick": 250, "thorough": 1000}
BUDGET_S = {"quick": 90, "thorough": 1500}
RULE = (
    "run = 1..40 well-formed frames in the C02 domain of the drawn reader configuration, 1..n flags between them, optional "
    "flag-free leading noise, one seeded fragmentation. Non-trivial = at least one frame sent and at least one cut strictly "
    "inside a frame; distinct = distinct (configuration, wire, cuts) digest."
)
STATE_MEASURE = "distinct (hunt mode, pending escape) x (next octet class: flag/escape/other/none) pairs observed at call boundaries"
REAL = ["han.hdlc.HdlcFrameReader", "han.hdlc.HdlcFrame", "han.hdlc.HdlcFrameHeader", "han.fastframecheck"]
STUB = ["meter (frame builder from ISO 13239/RFC 1662)", "line (no faults in this class)", "transport fragmentation"]
ASSUMPTIONS = [
    "domain as stated in the property: stuffing on => frames stuffed on the wire; stuffing off => no flag octet in header octets; abort detection on (stuffing off) => additionally no 0x7D directly before a flag octet or the frame end",
    "nothing is demanded about when within the call sequence a frame is returned",
    "check-sequence accessors may present the two octets as bytes or as an integer in either octet order",
]
MUST_FIRE = {"quick": ["cut_after_escape", "max_size_frame", "header_only_frame", "leading_noise", "special_check_sequence_value", "bystander_reader_instance", "chunks_as_bytearray", "identical_frames_back_to_back", "stalled_delivery", "over_1000_frames_in_one_call", "reused_receive_buffer"], "thorough": ["cut_after_escape", "max_size_frame", "header_only_frame", "leading_noise", "extra_escaped_octets"]}


def gen(rng, tier, index):
    stuffing, abort = rng.choice(hdlc_gen.CONFIGS)
    items = []
    if rng.random() < 0.3:
        n = rng.randint(1, 60)
        items.append({"t": "raw", "hex": rng.randbytes(n).replace(b"\x7e", b"\x7f").hex()})
    nframes = rng.choice([1, 2, 3, 5, 8, 13, 40]) if rng.random() < 0.7 else rng.randint(1, 40)
    backlog = rng.random() < 0.012
    if backlog:
        nframes = rng.randint(1100, 1600)  # a consumer that was stalled gets more than a thousand short frames in very few calls
    big = rng.random() < 0.08
    items.append({"t": "flags", "n": rng.choice([1, 1, 2, 3, 9])})
    for seq in range(nframes):
        items.append(hdlc_gen.clean_frame(rng, stuffing, abort, seq=seq, small=not big and nframes > 8))
        items.append({"t": "flags", "n": rng.choice([1, 1, 1, 2, 2, 3, 17])})
    if rng.random() < 0.1:
        # a meter whose registers did not change sends the same frame again, octet for octet
        at = rng.choice([i for i, it in enumerate(items) if it["t"] == "frame"])
        for _ in range(rng.choice([1, 1, 2, 4])):
            items[at + 1 : at + 1] = [{"t": "flags", "n": rng.choice([1, 1, 2])}, copy.deepcopy(items[at])]
    wire, spans = hdlc_gen.assemble(items, stuffing)
    hot = [s["start"] for s in spans] + [s["end"] for s in spans]
    hot += [i + 1 for i, b in enumerate(wire) if b == 0x7D][:200]
    for s in spans:
        if s["t"] == "frame":
            hot.append(s["start"] + hdlc_gen.header_len(items[s["i"]]))
    sc = {"cfg": [stuffing, abort], "items": items, "cuts": fragment.draw(rng, len(wire), hot)}
    if backlog:
        sc["cuts"] = rng.choice([{"m": "whole"}, {"m": "fixed", "k": 65536}, {"m": "fixed", "k": 40000}, {"m": "fixed", "k": 4097}])
    if rng.random() < 0.15:
        # a second connection in the same process: another reader instance fed other traffic in between
        other_cfg = list(rng.choice(hdlc_gen.CONFIGS))
        other = hdlc_gen.rand_bytes(rng, rng.randint(20, 300), 0.3) + b"\x7e" + hdlc_gen.build(hdlc_gen.frame_fields(rng, small=True))[: rng.randint(3, 30)]
        sc["bystander"] = {"cfg": other_cfg, "wire": other.hex()}
    yield sc


def execute(sc):
    stuffing, abort = sc["cfg"]
    wire, spans = hdlc_gen.assemble(sc["items"], stuffing)
    reader = reader_rig.make_reader("hdlc", (stuffing, abort))
    states = set()

    def probe(rd, chunk, probes):
        st = reader_rig.reader_state(rd)
        states.add(st)
        if st[1]:
            probes["cut_after_escape"] = probes.get("cut_after_escape", 0) + 1

    by = sc.get("bystander")
    fed = reader_rig.feed(reader, wire, sc["cuts"], probe, (reader_rig.make_reader("hdlc", tuple(by["cfg"])), bytes.fromhex(by["wire"])) if by else None)
    sent = [(s, sc["items"][s["i"]]) for s in spans if s["t"] in ("frame", "rawframe")]
    viol = []
    in_domain = all(it["t"] == "frame" and hdlc_gen.in_c02_domain(s["octets"], it, stuffing, abort) for s, it in sent)
    in_domain = in_domain and all(it["t"] != "raw" or (i == 0 and b"\x7e" not in bytes.fromhex(it["hex"])) for i, it in enumerate(sc["items"]))
    in_domain = in_domain and all(
        sc["items"][i]["t"] == "flags" for i in range(len(sc["items"])) if sc["items"][i]["t"] != "frame" and not (i == 0 and sc["items"][i]["t"] == "raw")
    ) and all(
        i >= 1 and sc["items"][i - 1]["t"] == "flags" and i + 1 < len(sc["items"]) and sc["items"][i + 1]["t"] == "flags" for i in range(len(sc["items"])) if sc["items"][i]["t"] == "frame"
    )
    if not in_domain:  # a shrink candidate that left the property's domain proves nothing
        return {"violations": [], "digest": "void", "nontrivial": False, "void": True, "key": "void", "faults": {}, "probes": {}, "states": (), "sim_s": 0.0, "summary": {}}

    def add(clause, facts, detail):
        sig = f"C02/{clause} cfg={'S' if stuffing else 's'}{'A' if abort else 'a'} {facts}"
        if not any(v["sig"] == sig for v in viol):
            viol.append({"sig": sig, "detail": detail})

    if fed.changed_later is not None:
        add("R", "returned-list-changed-by-later-call", "the list returned by read() call #%d held %d frames when it was returned and %d after later calls: what a call returned has to stay what it was (exactly once, in order, for a caller that keeps the lists)" % fed.changed_later)
    if fed.error is not None:
        idx, ex = fed.error
        add("exception", f"{type(ex).__name__} {reader_rig.exc_site(ex)}", f"read() call #{idx} raised {ex!r} on a clean stream")
    else:
        got = [f.as_bytes for f in fed.messages]
        want = [s["octets"] for s, _ in sent]
        if got != want:
            if len(got) < len(want):
                kind = "frame-lost"
            elif len(got) > len(want):
                kind = "extra-frame"
            else:
                kind = "frame-altered"
            first = next((i for i, (a, b) in enumerate(zip(got, want)) if a != b), min(len(got), len(want)))
            add("D1", kind, f"sent {len(want)} frames, got {len(got)}; first difference at frame #{first}")
        else:
            for n, (f, (s, item)) in enumerate(zip(fed.messages, sent)):
                if not f.is_valid:
                    add("D2", "clean-frame-reported-invalid", f"frame #{n} ({len(s['octets'])} octets) is_valid=False")
                    break
                bad = hdlc_oracle.field_mismatches(f, s["octets"])
                if bad:
                    add("D3", f"field-wrong {bad[0][0]}", f"frame #{n}: {bad}")
                    break
                # fields as given to the builder (not parsed back)
                if item["t"] == "frame":
                    info = bytes.fromhex(item["info"])
                    given = [
                        ("destination_address", f.header.destination_address, bytes.fromhex(item["dest"])),
                        ("source_address", f.header.source_address, bytes.fromhex(item["src"])),
                        ("control", f.header.control, item["ctl"]),
                        ("frame_length", f.header.frame_length, len(s["octets"])),
                    ]
                    if info:
                        given.append(("payload", f.payload, info))
                    wrong = [(a, b, c) for a, b, c in given if b != c]
                    if wrong:
                        add("D3", f"field-wrong {wrong[0][0]}", f"frame #{n}: {wrong[0]}")
                        break
    frame_spans = [(s["start"], s["end"]) for s, _ in sent]
    inside = fragment.strictly_inside(sc["cuts"], len(wire), frame_spans)
    probes = dict(fed.probes)
    if any(len(s["octets"]) == 0x7FF for s, _ in sent):
        probes["max_size_frame"] = 1
    if any(it["t"] == "frame" and not it["info"] for _, it in sent):
        probes["header_only_frame"] = 1
    if sc["items"] and sc["items"][0]["t"] == "raw":
        probes["leading_noise"] = 1
    if any(it.get("special") for _, it in sent):
        probes["special_check_sequence_value"] = 1
    if any(it.get("extra_esc") for _, it in sent):
        probes["extra_escaped_octets"] = 1
    if by:
        probes["bystander_reader_instance"] = 1
    if sc["cuts"].get("as"):
        probes["chunks_as_bytearray"] = 1
    if len(sent) > 1000 and fragment.n_cuts(len(wire), sc["cuts"]) < 3:
        probes["over_1000_frames_in_one_call"] = 1
    if any(a[0]["octets"] == b[0]["octets"] for a, b in zip(sent, sent[1:])):
        probes["identical_frames_back_to_back"] = 1
    probes[f"cfg_{int(stuffing)}{int(abort)}"] = 1
    probes[f"frag_{sc['cuts']['m']}"] = 1
    return {
        "violations": viol,
        "digest": prng.digest([[f.as_bytes.hex() for f in fed.messages], [c[0] for c in fed.calls][:50], [v["sig"] for v in viol]]),
        "nontrivial": bool(sent) and inside > 0,
        "key": prng.digest([sc["cfg"], wire.hex(), sc["cuts"]]),
        "faults": {"fragmentation_cuts": fragment.n_cuts(len(wire), sc["cuts"]), "cuts_inside_frames": inside},
        "probes": probes,
        "states": states,
        "sim_s": len(wire) / reader_rig.LINE_RATE,
        "summary": summarise(sc, wire, len(fed.messages)),
    }


def summarise(sc, wire=None, returned=None):
    out = {"cfg": sc["cfg"], "items": [({"t": it["t"], "n": it.get("n")} if it["t"] == "flags" else {"t": it["t"], "octets": len(it.get("info", it.get("hex", ""))) // 2}) for it in sc["items"][:12]], "cuts": sc["cuts"] if sc["cuts"]["m"] != "list" else {"m": "list", "at": sc["cuts"]["at"][:20]}}
    if wire is not None:
        out["wire_len"] = len(wire)
        out["wire_head_hex"] = wire[:48].hex()
        out["frames_returned"] = returned
    return out


def candidates(sc):
    for simpler in fragment.simpler(sc["cuts"]):
        yield dict(copy.deepcopy(sc), cuts=simpler)
    items = sc["items"]
    if sc.get("bystander"):
        yield {k: v for k, v in copy.deepcopy(sc).items() if k != "bystander"}
    for red in shrink.list_reductions(items):
        yield dict(copy.deepcopy(sc), items=red)
    if sc["cuts"]["m"] == "list":
        for red in shrink.list_reductions(sc["cuts"]["at"]):
            yield dict(copy.deepcopy(sc), cuts=fragment.keep(sc["cuts"], {"m": "list", "at": red} if red else {"m": "whole"}))
    elif sc["cuts"]["m"] == "fixed":
        yield dict(copy.deepcopy(sc), cuts=fragment.keep(sc["cuts"], {"m": "whole"}))
    for i, it in enumerate(items):
        if it["t"] == "flags" and it["n"] > 1:
            c = copy.deepcopy(sc)
            c["items"][i]["n"] = 1
            yield c
        if it["t"] == "raw" and len(it["hex"]) > 2:
            for red in shrink.bytes_reductions(bytes.fromhex(it["hex"]), 20):
                c = copy.deepcopy(sc)
                c["items"][i]["hex"] = red.hex()
                yield c
        if it["t"] == "frame":
            info = bytes.fromhex(it["info"])
            for red in shrink.bytes_reductions(info, 24):
                c = copy.deepcopy(sc)
                c["items"][i]["info"] = red.hex()
                yield c
            for key, simple in (("dest", "03"), ("src", "21"), ("ctl", 0x13), ("fmt", 0xA), ("seg", False), ("extra_esc", None)):
                if it.get(key) not in (simple, None):
                    c = copy.deepcopy(sc)
                    c["items"][i][key] = simple
                    yield c


def trace(sc):
    wire, _ = hdlc_gen.assemble(sc["items"], sc["cfg"][0])
    yield f"wire[{len(wire)}]={wire[:200].hex()}"
    yield from reader_rig.trace_feed("hdlc", tuple(sc["cfg"]), wire, sc["cuts"])
