#!/bin/bash
# Thorough tier for every property with a reduced wall-clock budget per check (default 900 s): a bounded pass for the
# last commit of a session. Usage: BUDGET=900 tools/run_all_thorough_short.sh [C17 C18 ...]
cd "$(dirname "$0")/.."
mkdir -p out/thorough
for p in ${@:-C17 C18 C13 C01 C02 C04 C05 C06 C12 C14 C15 C16 C19}; do
  /usr/bin/time -f "%e s" ./check $p --tier thorough --budget ${BUDGET:-900} > out/thorough/$p.log 2>&1
  echo "$p exit=$? $(grep -E '^SUMMARY' out/thorough/$p.log | cut -c1-260)"
  grep -E '^(VIOLATION|HARNESS|NOTE|KNOWN)' out/thorough/$p.log
done
