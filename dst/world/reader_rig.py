"""Rig R: drive a real reader (HdlcFrameReader / ModeDReader) with a fragmented byte stream."""
from __future__ import annotations

import contextlib

from dst.world import fragment

LINE_RATE = 2400 / 10.0  # octets per simulated second at 2400 baud 8N1 (bookkeeping only)


def make_reader(kind: str, cfg=None):
    if kind == "hdlc":
        from han.hdlc import HdlcFrameReader

        stuffing, abort = cfg if cfg is not None else (False, False)
        return HdlcFrameReader(bool(stuffing), bool(abort))
    from han.dlde import ModeDReader

    return ModeDReader()


class Feed:
    """Result of feeding chunks: messages per call, or the first escaping exception."""

    def __init__(self) -> None:
        self.calls = []  # (chunk_len, [messages])
        self.messages = []
        self.error = None  # (first failing call index, exception)
        self.errors = 0
        self.probes = {}
        self.changed_later = None  # (call index, was, is): a list returned by read() did not stay what it was


class ProcessClock:
    """The clocks a reader could consult, as a seam: while a read() call runs, `time.monotonic/time/perf_counter`
    (and their _ns forms) and the clock names bound in the loaded han.* modules return simulated time. Simulated time
    advances with the line rate and with the stalls the scenario puts between two deliveries (a slow or stalled
    sender / event loop): what a reader returns must not depend on WHEN read() is called."""

    NAMES = ("monotonic", "time", "perf_counter", "monotonic_ns", "time_ns", "perf_counter_ns")

    def __init__(self, source=None) -> None:
        self.t = 0.0
        self.reads = 0
        self.source = source  # e.g. a virtual event loop's time(); else the value the rig advances itself
        self.loop = self  # clockshim.Clock protocol: .loop.time()

    def time(self) -> float:
        return self.t if self.source is None else self.source()

    def __enter__(self):
        import sys
        import time as real

        import han.autodecoder  # noqa: F401 - every han module must be loaded before its clock names can be replaced
        import han.meter_connection  # noqa: F401

        from dst.world import clockshim

        clock = clockshim.Clock(self)
        self._clock = clock
        self._saved = {n: getattr(real, n) for n in self.NAMES}
        self._undo = []
        for mname in sorted(m for m in sys.modules if m.startswith("han.")):  # names bound at import time
            self._undo.append(clockshim.install(sys.modules[mname], clock)[0])
        real.monotonic = real.perf_counter = clock.seconds
        real.time = lambda: clockshim.EPOCH_TS + clock.seconds()
        real.monotonic_ns = real.perf_counter_ns = lambda: int(clock.seconds() * 1e9)
        real.time_ns = lambda: int((clockshim.EPOCH_TS + clock.seconds()) * 1e9)
        return self

    def __exit__(self, *exc):
        import time as real

        for n, v in self._saved.items():
            setattr(real, n, v)
        for undo in self._undo:
            undo()
        self.reads = self._clock.reads
        return False


def feed(reader, wire: bytes, cutspec: dict, probe=None, bystander=None, keep_going: bool = False) -> Feed:
    """`bystander`: optional (other reader instance, its own byte stream): another connection of the same
    process whose reader is fed between our calls. Instances must not influence each other.
    cutspec["gaps"] = [[k, seconds], ...]: the delivery before call k (mod number of calls) stalls that long."""
    # Always on the simulated process clock: no read() ever sees the machine's clocks (a reader that consults one would
    # otherwise make runs irreproducible); without stalls simulated time advances with the line rate only.
    pieces = fragment.chunks(wire, cutspec)
    stall = {}
    for k, sec in cutspec.get("gaps") or ():
        stall[k % len(pieces)] = stall.get(k % len(pieces), 0.0) + float(sec)
    clocked = _Clocked(reader, stall)
    with clocked._clock:
        out = _feed(clocked, wire, cutspec, probe, bystander, keep_going)
    out.probes["process_clock_reads"] = clocked._clock.reads
    if not out.probes["process_clock_reads"]:
        del out.probes["process_clock_reads"]
    return out


class _Clocked:
    """Reader wrapper: advances the simulated process clock (installed by feed() for the whole delivery) per call."""

    def __init__(self, reader, stall) -> None:
        self._r = reader
        self._stall = stall
        self._k = 0
        self._clock = ProcessClock()

    def read(self, chunk):
        self._clock.t += self._stall.get(self._k, 0.0) + len(chunk) / LINE_RATE
        self._k += 1
        return self._r.read(chunk)

    def __getattr__(self, name):
        return getattr(self._r, name)


def _feed(reader, wire: bytes, cutspec: dict, probe=None, bystander=None, keep_going: bool = False) -> Feed:
    out = Feed()
    as_bytearray = cutspec.get("as") == "bytearray"
    rx = bytearray() if cutspec.get("as") == "reused_bytearray" else None
    by = Bystander(bystander[0], bystander[1]) if bystander else None
    held = []  # the caller keeps what read() returned: (call index, the list object, what it contained when returned)
    for idx, chunk in enumerate(fragment.chunks(wire, cutspec)):
        if by is not None:
            by.step(idx)
        arg = chunk
        if as_bytearray:
            arg = bytearray(chunk)  # transports may hand over a bytearray; the reader must not depend on the type
        elif rx is not None:
            rx[:] = chunk  # one receive buffer, refilled for every call (recv_into style): the reader must not keep it
            arg = rx
        try:
            msgs = reader.read(arg)
        except Exception as ex:  # noqa: BLE001 - reported by C14; other checks count the run as void
            if out.error is None:
                out.error = (idx, ex)
            out.errors += 1
            if keep_going:  # like an event loop that logs the exception and keeps delivering data
                continue
            break
        out.calls.append((len(chunk), msgs))
        out.messages.extend(msgs)
        if isinstance(msgs, list) and len(held) < 4000:
            held.append((idx, msgs, list(msgs)))
        if probe is not None:
            probe(reader, chunk, out.probes)
    for idx, obj, was in held:
        if len(obj) != len(was) or any(a is not b for a, b in zip(obj, was)):
            out.changed_later = (idx, len(was), len(obj))
            break
    if cutspec.get("gaps"):
        out.probes["stalled_delivery"] = 1
    if rx is not None:
        out.probes["reused_receive_buffer"] = 1
    return out


class Bystander:
    """Another connection of the same process: its own reader instance, fed its own traffic between our
    calls, and re-created now and then (that connection re-connects). Instances must be isolated."""

    def __init__(self, reader, wire: bytes) -> None:
        self.reader = reader
        self.wire = wire
        self.pos = 0
        self.cls_args = None

    def step(self, idx: int) -> None:
        if self.reader is None:
            return
        if idx % 9 == 5:  # the other connection drops and comes back: a fresh reader object is constructed
            try:
                cls = type(self.reader)
                if cls.__name__ == "HdlcFrameReader":
                    self.reader = cls(bool(getattr(self.reader, "_use_octet_stuffing", False)), bool(getattr(self.reader, "_use_abort_sequence", False)))
                else:
                    self.reader = cls()
            except Exception:  # noqa: BLE001
                self.reader = None
                return
        if self.pos >= len(self.wire):
            self.pos = 0
        step = 1 + (idx * 7) % 23
        try:
            self.reader.read(self.wire[self.pos : self.pos + step])
        except Exception:  # noqa: BLE001 - the bystander's own trouble is not judged here
            self.reader = None
        self.pos += step


def exc_site(ex: BaseException) -> str:
    """Innermost han/ frame of an exception: 'file.py:function'."""
    import os
    import traceback

    site = "unknown"
    for fs in traceback.extract_tb(ex.__traceback__):
        if os.sep + "han" + os.sep in fs.filename:
            site = f"{os.path.basename(fs.filename)}:{fs.name}"
    return site


def hdlc_sig(frame):
    """Everything observable about a returned frame (for differential comparison)."""
    h = frame.header
    return (
        frame.as_bytes.hex(),
        bool(frame.is_valid),
        None if frame.payload is None else frame.payload.hex(),
        frame.frame_check_sequence,
        h.frame_length,
        None if h.destination_address is None else h.destination_address.hex(),
        None if h.source_address is None else h.source_address.hex(),
        h.control,
        h.header_check_sequence,
    )


def reader_state(reader) -> tuple:
    """Coarse reader state at a call boundary, read through public properties only (probe, never oracle)."""
    hunt = getattr(reader, "is_in_hunt_mode", None)
    esc = getattr(reader, "unescape_next", None)
    return (bool(hunt), None if esc is None else bool(esc))


def trace_feed(kind: str, cfg, wire: bytes, cutspec: dict, limit: int = 300):
    """Readable call-by-call trace for replay files: chunk, reader state, messages returned."""
    reader = make_reader(kind, cfg)
    pieces = fragment.chunks(wire, cutspec)
    stall = {}
    for k, sec in cutspec.get("gaps") or ():
        stall[k % len(pieces)] = stall.get(k % len(pieces), 0.0) + float(sec)
    clock = ProcessClock()
    lines = []
    pos = 0
    with clock if stall else contextlib.nullcontext():
        for idx, chunk in enumerate(pieces):
            if idx >= limit:
                lines.append(f"... ({len(wire) - pos} more octets)")
                break
            clock.t += stall.get(idx, 0.0) + len(chunk) / LINE_RATE
            try:
                msgs = reader.read(chunk)
                out = ", ".join(f"{type(m).__name__}[{len(m.as_bytes)}]{'' if m.is_valid else '!invalid'}" for m in msgs)
            except Exception as ex:  # noqa: BLE001
                out = f"RAISED {ex!r}"
            head = chunk[:24].hex() + ("..." if len(chunk) > 24 else "")
            when = f" t={clock.t:.3f}s{' (delivery stalled %.1fs)' % stall[idx] if idx in stall else ''}" if stall else ""
            lines.append(f"read#{idx} @{pos}{when} len={len(chunk)} {head} -> [{out}] state(hunt,esc)={reader_state(reader)}")
            pos += len(chunk)
    yield from lines
