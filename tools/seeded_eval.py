#!/venv/bin/python
"""Confirm and evaluate independently written breakages kept under /verif/seeded/<id>/.

For each seeded change: on a scratch copy of /repo (under /dev/shm, removed afterwards)
 1. the demonstration passes on the unchanged copy,
 2. the patch applies, the repository's own tests still pass,
 3. the demonstration fails with the patch,
 4. the listed quick checks are run with VERIF_REPO=<copy>; which of them report a violation is recorded
    in seeded/<id>/meta.json under "detected_by".
usage: tools/seeded_eval.py [id ...] [--all-checks] [--tier quick]
"""
import json, os, shutil, subprocess, sys, tempfile, time

ROOT = os.path.dirname(os.path.dirname(os.path.abspath(__file__)))
ALL = ["C01", "C02", "C04", "C05", "C06", "C12", "C13", "C14", "C15", "C16", "C17", "C18", "C19"]


def run(cmd, **kw):
    return subprocess.run(cmd, capture_output=True, text=True, **kw)


def evaluate(sid, all_checks, tier):
    d = os.path.join(ROOT, "seeded", sid)
    meta_path = os.path.join(d, "meta.json")
    meta = json.load(open(meta_path))
    scratch = tempfile.mkdtemp(prefix="amshan-seed-", dir="/dev/shm")
    try:
        copy = os.path.join(scratch, "repo")
        os.makedirs(copy)
        base = meta.get("base_commit", "HEAD")  # the commit of /repo the change was written against
        ar = subprocess.run(f"git -C /repo archive {base} | tar -x -C {copy}", shell=True, capture_output=True, text=True)
        if ar.returncode:
            raise SystemExit(f"cannot materialise {base}: {ar.stderr}")
        env = dict(os.environ, PYTHONPATH=copy, PYTHONDONTWRITEBYTECODE="1", SEED_WORKTREE=copy)
        demo = open(os.path.join(d, "demo.py")).read().replace(meta["origin_worktree"], copy)
        demo_path = os.path.join(scratch, "demo.py")
        open(demo_path, "w").write(demo)
        a = run(["/venv/bin/python", "-B", demo_path], cwd=copy, env=env, timeout=600)
        p = run(["patch", "-p1", "-s", "-d", copy, "-i", os.path.join(d, "patch.diff")])
        if p.returncode:
            meta["confirmed"] = f"patch does not apply: {p.stdout[-200:]}"
            json.dump(meta, open(meta_path, "w"), indent=1)
            return meta
        t = run(["/venv/bin/python", "-B", "-m", "pytest", "-q", "-p", "no:cacheprovider"], cwd=copy, env=env, timeout=600)
        b = run(["/venv/bin/python", "-B", demo_path], cwd=copy, env=env, timeout=600)
        meta["confirmed"] = {
            "demo_without_change": {"exit": a.returncode, "last_line": (a.stdout.strip().splitlines() or [""])[-1][:160]},
            "repo_tests_with_change": (t.stdout.strip().splitlines() or [""])[-1][:80],
            "demo_with_change": {"exit": b.returncode, "last_line": (b.stdout.strip().splitlines() or [""])[-1][:160]},
            "ok": a.returncode == 0 and t.returncode == 0 and b.returncode == 1,
        }
        props = ALL if all_checks else meta.get("checks_to_run") or [meta["property"]]
        det = meta.get("detected_by") or {}
        for prop in props:
            t0 = time.time()
            c = run([os.path.join(ROOT, "check"), prop, "--tier", tier], cwd=ROOT, env=dict(os.environ, VERIF_REPO=copy, VERIF_EVIDENCE_DIR=os.path.join(scratch, "ev"), VERIF_OUT_DIR=os.path.join(scratch, "out")), timeout=3000)
            sigs = [l.strip()[11:160] for l in c.stdout.splitlines() if l.strip().startswith("signature:")]
            det[f"{prop}/{tier}"] = {"exit": c.returncode, "violations": sum(1 for l in c.stdout.splitlines() if l.startswith("VIOLATION")), "first_signatures": sigs[:3], "wall_s": round(time.time() - t0, 1)}
        meta["detected_by"] = det
        meta["detected"] = any(v["exit"] == 1 and v["violations"] > 0 for v in det.values())
        json.dump(meta, open(meta_path, "w"), indent=1)
        return meta
    finally:
        shutil.rmtree(scratch, ignore_errors=True)


def main():
    args = [a for a in sys.argv[1:] if not a.startswith("--")]
    tier = "quick"
    if "--tier" in sys.argv:
        tier = sys.argv[sys.argv.index("--tier") + 1]
        args = [a for a in args if a != tier]
    ids = args or sorted(os.listdir(os.path.join(ROOT, "seeded")))
    for sid in ids:
        if not os.path.exists(os.path.join(ROOT, "seeded", sid, "meta.json")):
            continue
        m = evaluate(sid, "--all-checks" in sys.argv, tier)
        c = m.get("confirmed")
        print(sid, "confirmed=" + str(c.get("ok") if isinstance(c, dict) else c), "detected=" + str(m.get("detected")), {k: (v["exit"], v["violations"]) for k, v in (m.get("detected_by") or {}).items()})
        sys.stdout.flush()


if __name__ == "__main__":
    main()
