"""C01 - HDLC: a frame is reported valid exactly when it is intact, with exact fields, and its
octets come from the wire, in order, each wire octet used at most once.

Rig R with line faults.  The oracle is the property's own predicate (bit-serial FCS, length field,
header parse by the LSB rule, embedding of returned octets between flags) - no model of the reader.
"""
from __future__ import annotations

import copy

from dst.core import prng, shrink
from dst.world import fragment, hdlc_gen, hdlc_oracle, hdlc_ref, hdlc_wires, reader_rig

PROP = "C01"
LEVEL = "exploration"
TECHNIQUE = "deterministic simulation of meter -> faulty line -> fragmenting transport -> real HdlcFrameReader; seeded frame/line fault injection; oracle = independent bit-serial FCS + length predicate, header parse, ordered disjoint embedding into the wire"
DESIGN_REF = "DESIGN.md section 4.1"
LEVEL_TEXT = (
    "Seeded search over wires built from well-formed and deliberately damaged frames (wrong length with good FCS, good length with "
    "bad FCS, header-only, truncated, over-long, junk appended), noise, idle fill and line faults (bit flips, dropped/inserted/duplicated "
    "octets, bursts, flag loss/insertion, abort sequences) x fragmentations x four reader configurations; every returned frame is "
    "judged by predicates written from RFC 1662 / ISO 13239. Sampling, not proof."
)
RUNS = {"quick": 120000, "thorough": 5000000}
CHUNK = {"quick": 300, "thorough": 2000}
BUDGET_S = {"quick": 90, "thorough": 1500}
RULE = (
    "run = one seeded faulty wire (frames + frame-level faults + noise + line faults, or small-alphabet / pure-noise strings) x one "
    "reader configuration x one fragmentation. Non-trivial = at least one frame returned and (some returned frame invalid or a cut "
    "strictly inside the stream); distinct = distinct (configuration, wire, cuts) digest."
)
STATE_MEASURE = "distinct (hunt mode, pending escape) pairs at call boundaries x verdict classes (valid/invalid by each conjunct)"
REAL = ["han.hdlc.HdlcFrameReader", "han.hdlc.HdlcFrame", "han.hdlc.HdlcFrameHeader", "han.fastframecheck"]
STUB = ["meter (frame builder)", "line fault injector", "transport fragmentation"]
ASSUMPTIONS = [
    "an exception escaping read() makes the run void here (it is C14's violation)",
    "check-sequence accessors may present the two octets as bytes or an integer in either octet order; an empty information field may be None or b''",
    "with octet stuffing a lone trailing escape octet before a flag is dropped by un-stuffing",
]
MUST_FIRE = {
    "quick": ["valid_frames", "invalid_bad_fcs_good_len", "invalid_good_fcs_bad_len", "len_rewrite_good_fcs", "hcs_rewrite_good_fcs", "hdr_only", "noise_overlong", "headers_kept_frames_dropped"],
    "thorough": ["valid_frames", "invalid_bad_fcs_good_len", "invalid_good_fcs_bad_len", "len_rewrite_good_fcs", "hdr_only", "noise_overlong", "noise_abort_seq"],
}


def gen(rng, tier, index):
    cfg = rng.choice(hdlc_gen.CONFIGS)
    w = hdlc_wires.draw(rng, cfg)
    wire, _ = hdlc_wires.wire_of(w, cfg[0])
    hot = [i + 1 for i, b in enumerate(wire) if b in (0x7D, 0x7E)][:300]
    sc = {"cfg": list(cfg), "wire": w, "cuts": fragment.draw(rng, len(wire), hot)}
    if rng.random() < 0.12:
        sc["headers_only"] = True  # a caller that keeps frame.header of each frame and lets the frames go
    yield sc


def execute(sc):
    stuffing, abort = sc["cfg"]
    wire, fired = hdlc_wires.wire_of(sc["wire"], stuffing)
    reader = reader_rig.make_reader("hdlc", (stuffing, abort))
    states = set()

    def probe(rd, chunk, probes):
        states.add(reader_rig.reader_state(rd))

    fed = reader_rig.feed(reader, wire, sc["cuts"], probe)
    viol = []
    probes = {}
    tag = f"cfg={'S' if stuffing else 's'}{'A' if abort else 'a'}"

    def add(clause, facts, detail):
        sig = f"C01/{clause} {tag} {facts}"
        if not any(v["sig"] == sig for v in viol):
            viol.append({"sig": sig, "detail": detail})

    def bump(k):
        probes[k] = probes.get(k, 0) + 1

    if fed.changed_later is not None:
        add("R", "returned-list-changed-by-later-call", "the list returned by read() call #%d held %d frames when it was returned and %d after later calls: frames are handed over in stream order and no octet is used twice only if what a call returned stays what it was" % fed.changed_later)

    void = fed.error is not None
    frames = []
    any_invalid = False
    if not void:
        for n, f in enumerate(fed.messages):
            o = f.as_bytes
            frames.append(o)
            got = bool(f.is_valid)
            len_ok = len(o) >= 2 and ((o[0] << 8 | o[1]) & 0x7FF) == len(o)
            fcs_ok = len(o) >= 2 and hdlc_ref.fcs_octets(o[:-2]) == o[-2:]
            want = len_ok and fcs_ok
            if want:
                bump("valid_frames")
            else:
                any_invalid = True
                bump(f"invalid_{'good' if fcs_ok else 'bad'}_fcs_{'good' if len_ok else 'bad'}_len")
            states.add(("verdict", len_ok, fcs_ok))
            if got != want:
                add("V", f"is_valid={got} but length_ok={len_ok} fcs_ok={fcs_ok}", f"frame #{n}: {o.hex()[:80]} ({len(o)} octets)")
                continue
            if want:
                bad = hdlc_oracle.field_mismatches(f, o)
                if bad is None:
                    bump("valid_unparseable_header")
                elif bad:
                    add("F", f"field-wrong {bad[0][0]}", f"valid frame #{n} {o.hex()[:60]}: {bad}")
        idx = hdlc_oracle.embed_stuffed(wire, frames) if stuffing else hdlc_oracle.embed_unstuffed(wire, frames)
        if idx is not None:
            add("E", "frame-octets-not-from-wire-in-order", f"returned frame #{idx} ({frames[idx].hex()[:60]}) has no place between flags after the previous frames")
    if sc.get("headers_only") and not void and not viol:
        import gc

        again = reader_rig.feed(reader_rig.make_reader("hdlc", (stuffing, abort)), wire, sc["cuts"])
        if again.error is None:
            kept = [(m.as_bytes, m.header) for m in again.messages if m.is_valid]
            del again
            gc.collect()
            for n, (o, hdr) in enumerate(kept):
                try:
                    bad = hdlc_oracle.header_mismatches(hdr, o)
                except Exception as ex:  # noqa: BLE001
                    add("H", f"header-accessor-raised-after-frame-was-dropped {type(ex).__name__}", f"valid frame #{n} {o.hex()[:60]}: the caller kept frame.header only; accessor raised {ex!r}")
                    break
                if bad:
                    add("H", f"header-field-wrong-after-frame-was-dropped {bad[0][0]}", f"valid frame #{n} {o.hex()[:60]}: {bad}")
                    break
            if kept:
                bump("headers_kept_frames_dropped")
    for k, v in fired.items():
        probes[k] = probes.get(k, 0) + v
    probes[f"cfg_{int(stuffing)}{int(abort)}"] = 1
    ncuts = fragment.n_cuts(len(wire), sc["cuts"])
    return {
        "violations": viol,
        "void": void,
        "digest": prng.digest([[(f.hex(),) for f in frames], [v["sig"] for v in viol], void]),
        "nontrivial": bool(frames) and (any_invalid or ncuts > 0),
        "key": prng.digest([sc["cfg"], wire.hex(), sc["cuts"]]),
        "faults": dict(fired, fragmentation_cuts=ncuts),
        "probes": probes,
        "states": states,
        "sim_s": len(wire) / reader_rig.LINE_RATE,
        "summary": {"cfg": sc["cfg"], "class": sc["wire"].get("class"), "wire_len": len(wire), "wire_head_hex": wire[:64].hex(), "cuts": sc["cuts"] if sc["cuts"]["m"] != "list" else {"m": "list", "at": sc["cuts"]["at"][:16]}, "frames_returned": len(frames), "gen_faults": sc["wire"].get("gen_faults")},
    }


def summarise(sc):
    return {"cfg": sc["cfg"], "class": sc["wire"].get("class")}


def candidates(sc):
    for simpler in fragment.simpler(sc["cuts"]):
        yield dict(copy.deepcopy(sc), cuts=simpler)
    stuffing = sc["cfg"][0]
    if sc["cuts"]["m"] == "list":
        for red in shrink.list_reductions(sc["cuts"]["at"]):
            yield dict(copy.deepcopy(sc), cuts=fragment.keep(sc["cuts"], {"m": "list", "at": red} if red else {"m": "whole"}))
    elif sc["cuts"]["m"] == "fixed":
        yield dict(copy.deepcopy(sc), cuts=fragment.keep(sc["cuts"], {"m": "whole"}))
    for w in hdlc_wires.shrink_candidates(sc["wire"], stuffing):
        yield dict(copy.deepcopy(sc), wire=w)
    for cfg in ([False, False], [True, False], [False, True]):
        if cfg != sc["cfg"] and sum(cfg) < sum(sc["cfg"]):
            yield dict(copy.deepcopy(sc), cfg=cfg)


def trace(sc):
    wire, _ = hdlc_wires.wire_of(sc["wire"], sc["cfg"][0])
    yield f"wire[{len(wire)}]={wire[:200].hex()}"
    yield from reader_rig.trace_feed("hdlc", tuple(sc["cfg"]), wire, sc["cuts"])
