"""Minimisation on the explicit scenario (never on the seed)."""
from __future__ import annotations

import copy
import time


def list_reductions(items):
    """Candidate shorter lists: remove chunks of decreasing size (ddmin complements), then singles."""
    n = len(items)
    if n == 0:
        return
    size = max(1, n // 2)
    while size >= 1:
        for start in range(0, n, size):
            cand = items[:start] + items[start + size :]
            if len(cand) < n:
                yield cand
        if size == 1:
            break
        size //= 2


def bytes_reductions(data: bytes, max_cands: int = 400):
    """Shorter byte strings: drop chunks (halves .. single octets)."""
    n = len(data)
    count = 0
    size = max(1, n // 2) if n else 0
    while size >= 1 and count < max_cands:
        for start in range(0, n, size):
            yield data[:start] + data[start + size :]
            count += 1
            if count >= max_cands:
                return
        if size == 1:
            break
        size //= 2


def minimise(scenario, candidates, fails, budget_s: float = 30.0, max_exec: int = 2000):
    """Greedy descent: take the first candidate that still fails (same signature), restart.

    candidates(scenario) -> iterable of smaller scenarios; fails(scenario) -> bool.
    Returns (minimised scenario, executions used)."""
    cur = copy.deepcopy(scenario)
    t0 = time.monotonic()
    used = 0
    progress = True
    while progress:
        progress = False
        for cand in candidates(cur):
            if used >= max_exec or time.monotonic() - t0 > budget_s:
                return cur, used
            used += 1
            try:
                ok = fails(cand)
            except Exception:
                ok = False
            if ok:
                cur = cand
                progress = True
                break
    return cur, used
