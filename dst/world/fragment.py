"""Transport fragmentation: how a byte stream is split into read()/data_received() calls.

A cut specification is plain data:
  {"m": "whole"} | {"m": "fixed", "k": k} | {"m": "list", "at": [positions, may repeat -> empty chunk]}
"""
from __future__ import annotations

FIXED_SIZES = [1, 2, 3, 7, 64, 255, 256, 700, 1024, 4096, 8191, 8192, 65536]


def chunks(wire: bytes, spec: dict):
    m = spec.get("m", "whole")
    n = len(wire)
    if m == "whole" or n == 0:
        return [wire]
    if m == "fixed":
        k = max(1, int(spec["k"]))
        return [wire[i : i + k] for i in range(0, n, k)]
    at = sorted(p for p in spec.get("at", ()) if 0 < p < n)
    out = []
    prev = 0
    for p in at:
        out.append(wire[prev:p])
        prev = p
    out.append(wire[prev:])
    return out


EXTRAS = ("as", "gaps")  # how chunks are handed over / stalls between deliveries: not part of where the cuts are


def keep(old: dict, new: dict) -> dict:
    """`new` cut positions with `old`'s delivery extras (shrinking the cuts must not silently change the delivery)."""
    return {**new, **{k: old[k] for k in EXTRAS if k in old}}


def simpler(spec: dict):
    """Shrink candidates that drop one delivery extra each."""
    for k in EXTRAS:
        if k in spec:
            yield {a: b for a, b in spec.items() if a != k}


def n_cuts(wire_len: int, spec: dict) -> int:
    m = spec.get("m", "whole")
    if m == "whole":
        return 0
    if m == "fixed":
        return max(0, (wire_len - 1) // max(1, int(spec["k"])))
    return len([p for p in spec.get("at", ()) if 0 < p < wire_len])


def draw(rng, wire_len: int, hot=(), allow_empty: bool = True, max_list: int = 400) -> dict:
    spec = _draw(rng, wire_len, hot, allow_empty, max_list)
    r = rng.random()
    if r < 0.06:
        spec["as"] = "bytearray"
    elif r < 0.11:
        spec["as"] = "reused_bytearray"  # one receive buffer object, refilled before every call
    if spec["m"] != "whole" and rng.random() < 0.07:
        # the sender / the event loop stalls before some deliveries (simulated process clock, reader_rig.ProcessClock)
        spec["gaps"] = [[rng.randrange(0, 400), rng.choice([0.3, 1.5, 1.5, 5.0, 61.0, 3600.0, 172800.0])] for _ in range(rng.choice([1, 1, 2, 4]))]
    return spec


def _draw(rng, wire_len: int, hot=(), allow_empty: bool = True, max_list: int = 400) -> dict:
    """Seeded fragmentation. `hot` are interesting stream positions (message boundaries, escape
    octets, CR/LF, '!' ...): boundary-adversarial mode cuts right before / at / after them."""
    if wire_len <= 1:
        return {"m": "whole"}
    r = rng.random()
    if r < 0.12:
        return {"m": "whole"}
    if r < 0.27:
        return {"m": "fixed", "k": 1}
    if r < 0.42:
        return {"m": "fixed", "k": rng.choice([2, 3, 5, 7, 16, 64, 255, 256, 700, 1024])}
    if r < 0.72 or not hot:
        k = rng.randint(1, min(max_list, max(1, wire_len - 1), 1 + wire_len // 3 if rng.random() < 0.5 else 12))
        at = sorted(rng.randrange(1, wire_len) for _ in range(k))
    else:
        at = []
        pool = list(hot)
        for _ in range(rng.randint(1, min(40, len(pool)))):
            p = rng.choice(pool) + rng.choice([-1, 0, 0, 1, 1, 2])
            if 0 < p < wire_len:
                at.append(p)
        for _ in range(rng.randint(0, 4)):
            at.append(rng.randrange(1, wire_len))
        at.sort()
    if allow_empty and at and rng.random() < 0.15:
        at.append(rng.choice(at))  # repeated cut -> an empty chunk
        at.sort()
    return {"m": "list", "at": at}


def strictly_inside(spec: dict, wire_len: int, spans) -> int:
    """Number of cuts that fall strictly inside one of the spans [(start, end)]."""
    m = spec.get("m", "whole")
    if m == "whole":
        return 0
    count = 0
    if m == "fixed":
        k = max(1, int(spec["k"]))
        for a, b in spans:
            first = (a // k + 1) * k
            if first < b:
                count += (b - 1 - first) // k + 1
        return count
    at = [p for p in spec.get("at", ()) if 0 < p < wire_len]
    for a, b in spans:
        count += sum(1 for p in at if a < p < b)
    return count
