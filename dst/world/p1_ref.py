"""IEC 62056-21 mode D / DSMR P1 telegram reference, written from the standard.
Trusted base of the oracles - never imports `han`."""
from __future__ import annotations

import re

SLASH = 0x2F
BANG = 0x21
LF = 0x0A


def crc16_arc_bits(data: bytes) -> int:
    """Bit-serial CRC-16/ARC: x^16+x^15+x^2+1 reflected (0xA001), init 0, no final xor."""
    reg = 0
    for octet in data:
        for bit in range(8):
            inbit = (octet >> bit) & 1
            if (reg & 1) ^ inbit:
                reg = (reg >> 1) ^ 0xA001
            else:
                reg >>= 1
    return reg


# Strict: what a well-formed generator emits ("/" XXZ baud [\W pairs] 0..16 id chars without / and !).
ID_CHARS = bytes(c for c in range(0x20, 0x7F) if c not in (0x2F, 0x21, 0x5C))
STRICT_IDENT = re.compile(rb"^/[A-Z][A-Z][A-Za-z][0-9](\\[A-Za-z0-9_])*[ \x22-\x2e\x30-\x5b\x5d-\x7e]{0,16}\r\n$")
# Loose: a necessary condition of any reasonable reading of "well-formed identification line":
# starts with "/", three letters, one digit, and only printable ASCII up to the line end.
# Trailing ASCII white space (incl. the separators 0x1C..0x1F that str.strip() removes) is tolerated:
# a lenient reading of the line end is not a malformed identification.
LOOSE_IDENT = re.compile(rb"^/[A-Za-z]{3}[0-9][ -~]*[\t\n\x0b\x0c\r\x1c-\x1f ]*$")


def first_line(readout: bytes) -> bytes:
    pos = readout.find(b"\n")
    return readout[: pos + 1] if pos >= 0 else readout


def build_readout(ident: bytes, lines: list[bytes], checksum: str = "good", blank_after_ident: bool = True) -> bytes:
    """ident without line end; lines without line ends. checksum: good | none | lower | <4 chars verbatim>."""
    body = ident + b"\r\n"
    if blank_after_ident:
        body += b"\r\n"
    for line in lines:
        body += line + b"\r\n"
    body += b"!"
    if checksum == "none":
        tail = b""
    elif checksum == "good":
        tail = b"%04X" % crc16_arc_bits(body)
    elif checksum == "lower":
        tail = b"%04x" % crc16_arc_bits(body)
    else:
        tail = checksum.encode("latin-1")
    return body + tail + b"\r\n"


_TABLE = None


def _crc_table():
    global _TABLE
    if _TABLE is None:
        t = []
        for b in range(256):
            r = b
            for _ in range(8):
                r = (r >> 1) ^ 0xA001 if r & 1 else r >> 1
            t.append(r)
        _TABLE = t
    return _TABLE


def find_counter_for_crc(prefix: bytes, suffix: bytes, want: int = 0, digits: int = 8):
    """Search a decimal counter (as ASCII digits) such that CRC16/ARC(prefix + counter + suffix) == want.
    Table-driven for speed; the caller confirms the result with the bit-serial reference."""
    t = _crc_table()
    start = 0
    for b in prefix:
        start = (start >> 8) ^ t[(start ^ b) & 0xFF]
    for n in range(10 ** digits):
        text = b"%0*d" % (digits, n)
        r = start
        for b in text:
            r = (r >> 8) ^ t[(r ^ b) & 0xFF]
        for b in suffix:
            r = (r >> 8) ^ t[(r ^ b) & 0xFF]
        if r == want:
            return text
        if n > 400000:
            return None
    return None
