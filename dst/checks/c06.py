"""C06 - HDLC reader output does not depend on how the byte stream is chunked.

Rig R: the same faulty wire is delivered under several fragmentations (whole, byte-at-a-time, every
single cut for short wires, seeded multi-cuts, cuts around flag/escape octets, empty chunks); the
complete observable signature of the returned frames must be identical.  Differential on the same
code: needs no reference.
"""
from __future__ import annotations

import copy

from dst.core import prng, shrink
from dst.world import fragment, hdlc_gen, hdlc_wires, reader_rig

PROP = "C06"
LEVEL = "exploration"
TECHNIQUE = "deterministic simulation of one faulty byte stream delivered under many seeded fragmentations to fresh real HdlcFrameReaders; differential comparison of the full frame signatures"
DESIGN_REF = "DESIGN.md section 4.5"
LEVEL_TEXT = (
    "Seeded search over faulty wires (same generator as C01 plus flag/escape-dense strings) x four configurations; each wire is fed "
    "whole, bytewise, with every single cut (wires <= 64 octets), with seeded multi-cuts and boundary-adversarial cuts, and all runs must "
    "return identical frame signatures. Thorough adds a bounded enumeration over a 4-symbol alphabet as a supplement. Sampling, not proof."
)
RUNS = {"quick": 80000, "thorough": 2000000}
CHUNK = {"quick": 150, "thorough": 1000}
BUDGET_S = {"quick": 90, "thorough": 1500}
RULE = (
    "run = one seeded wire x one reader configuration x a set of >=4 fragmentations (whole, bytewise, all single cuts if <=64 octets, "
    "3 seeded cut lists incl. boundary-adversarial and empty chunks). Non-trivial = at least one frame returned under the reference "
    "fragmentation and at least two different fragmentations compared; distinct = distinct (configuration, wire) digest."
)
STATE_MEASURE = "distinct (hunt mode, pending escape) pairs observed at call boundaries across all fragmentations"
REAL = ["han.hdlc.HdlcFrameReader", "han.hdlc.HdlcFrame", "han.hdlc.HdlcFrameHeader", "han.fastframecheck"]
STUB = ["meter (frame builder)", "line fault injector", "transport fragmentation"]
ASSUMPTIONS = ["an exception escaping read() under any fragmentation makes the run void here (C14's violation)"]
MUST_FIRE = {"quick": ["pending_escape_at_cut", "all_single_cuts", "in_frame_at_cut"], "thorough": ["pending_escape_at_cut", "all_single_cuts", "in_frame_at_cut"]}


def gen(rng, tier, index):
    cfg = rng.choice(hdlc_gen.CONFIGS)
    w = hdlc_wires.draw(rng, cfg)
    wire, _ = hdlc_wires.wire_of(w, cfg[0])
    hot = [i + 1 for i, b in enumerate(wire) if b in (0x7D, 0x7E)][:300]
    cutsets = [{"m": "fixed", "k": 1}]
    for _ in range(3):
        c = fragment.draw(rng, len(wire), hot)
        if c["m"] != "whole":
            cutsets.append(c)
    yield {"cfg": list(cfg), "wire": w, "cutsets": cutsets, "singles": len(wire) <= 64}


def _run(cfg, wire, spec, states, probes):
    reader = reader_rig.make_reader("hdlc", tuple(cfg))

    def probe(rd, chunk, pr):
        st = reader_rig.reader_state(rd)
        states.add(st)
        if st[1]:
            probes["pending_escape_at_cut"] = probes.get("pending_escape_at_cut", 0) + 1
        if not st[0]:
            probes["in_frame_at_cut"] = probes.get("in_frame_at_cut", 0) + 1

    fed = reader_rig.feed(reader, wire, spec, probe)
    if fed.error is not None:
        probes["_raised"] = f"{type(fed.error[1]).__name__} in read() call #{fed.error[0]}"
        return None
    return [reader_rig.hdlc_sig(f) for f in fed.messages]


def execute(sc):
    stuffing, abort = sc["cfg"]
    wire, fired = hdlc_wires.wire_of(sc["wire"], stuffing)
    states = set()
    probes = {}
    ref = _run(sc["cfg"], wire, {"m": "whole"}, states, probes)
    viol = []
    void = ref is None
    tag = f"cfg={'S' if stuffing else 's'}{'A' if abort else 'a'}"
    if void:
        # An exception is C14's business - unless it depends on the fragmentation: the same stream delivered another way
        # is read without one. (The other direction, a fragmentation that raises while whole-stream delivery does not,
        # is judged below.)
        why = probes.pop("_raised", "?")
        for spec in sc["cutsets"]:
            got = _run(sc["cfg"], wire, spec, states, probes)
            if got is not None:
                viol.append({"sig": f"C06/D {tag} raised-under-one-fragmentation-only {why.split(' ')[0]}", "detail": f"whole-stream delivery raised {why}; fragmentation {str(spec)[:80]} returned {len(got)} frames", "spec": spec})
                void = False
                break
        probes.pop("_raised", None)
    compared = 0
    specs = list(sc["cutsets"])
    if sc.get("singles"):
        specs += [{"m": "list", "at": [p]} for p in range(1, len(wire))]
        probes["all_single_cuts"] = 1
    if not void and not viol:
        for spec in specs:
            got = _run(sc["cfg"], wire, spec, states, probes)
            if got is None:
                why = probes.pop("_raised", "?")
                viol.append({"sig": f"C06/D {tag} raised-under-one-fragmentation-only {why.split(' ')[0]}", "detail": f"fragmentation {str(spec)[:80]} raised {why}; whole-stream delivery returned {len(ref)} frames", "spec": spec})
                break
            compared += 1
            if got != ref:
                if len(got) != len(ref):
                    kind = "frame-count-differs"
                else:
                    i = next(i for i, (a, b) in enumerate(zip(got, ref)) if a != b)
                    fields = ["octets", "is_valid", "payload", "fcs", "frame_length", "dest", "src", "control", "hcs"]
                    kind = "frame-differs " + next(fields[j] for j in range(len(fields)) if got[i][j] != ref[i][j])
                viol.append({"sig": f"C06/D {tag} {kind}", "detail": f"fragmentation {str(spec)[:80]} returned {len(got)} frames, whole-stream delivery {len(ref)}", "spec": spec})
                break
    for k, v in fired.items():
        probes[k] = probes.get(k, 0) + v
    return {
        "violations": [{"sig": v["sig"], "detail": v["detail"]} for v in viol],
        "void": void,
        "digest": prng.digest([ref, compared, [v["sig"] for v in viol]]),
        "nontrivial": bool(ref) and compared >= 2,
        "key": prng.digest([sc["cfg"], wire.hex()]),
        "faults": dict(fired, fragmentations_compared=compared),
        "probes": probes,
        "states": states,
        "sim_s": len(wire) * (compared + 1) / reader_rig.LINE_RATE,
        "summary": {"cfg": sc["cfg"], "class": sc["wire"].get("class"), "wire_len": len(wire), "wire_head_hex": wire[:64].hex(), "fragmentations": compared + 1, "frames": 0 if not ref else len(ref)},
    }


def summarise(sc):
    return {"cfg": sc["cfg"]}


def candidates(sc):
    stuffing = sc["cfg"][0]
    # keep only one differing fragmentation if possible
    for spec in sc["cutsets"]:
        if len(sc["cutsets"]) > 1 or sc.get("singles"):
            yield dict(copy.deepcopy(sc), cutsets=[spec], singles=False)
    if sc.get("singles"):
        wire, _ = hdlc_wires.wire_of(sc["wire"], stuffing)
        for p in range(1, len(wire)):
            yield dict(copy.deepcopy(sc), cutsets=[{"m": "list", "at": [p]}], singles=False)
    for i, spec in enumerate(sc["cutsets"]):
        if spec["m"] == "list":
            for red in shrink.list_reductions(spec["at"]):
                if red:
                    c = copy.deepcopy(sc)
                    c["cutsets"][i] = {"m": "list", "at": red}
                    yield c
    for w in hdlc_wires.shrink_candidates(sc["wire"], stuffing):
        yield dict(copy.deepcopy(sc), wire=w)


def supplements(tier):
    if tier != "thorough":
        return []

    def small_alphabet():
        import itertools

        from dst.core import env

        env.setup()
        alphabet = [0x7E, 0x7D, 0x01, 0x20]
        count = 0
        viol = []
        for length in range(1, 10):
            for tup in itertools.product(alphabet, repeat=length):
                wire = bytes(tup)
                for cfg in hdlc_gen.CONFIGS:
                    count += 1
                    sc = {"cfg": list(cfg), "wire": {"raw": wire.hex(), "class": "enum"}, "cutsets": [{"m": "fixed", "k": 1}], "singles": False}
                    res = execute(sc)
                    for v in res["violations"]:
                        viol.append({"sig": v["sig"], "detail": v["detail"], "index": -1, "scenario": sc})
                if viol:
                    return {"evaluations": count, "exhaustive": False, "viol": viol, "what": "stopped at first difference"}
        return {"evaluations": count, "exhaustive": True, "viol": [], "what": "all wires of length 1..9 over {7E,7D,01,20} x 4 configurations, whole vs byte-at-a-time (bounded enumeration, supplement only)"}

    return [("small_alphabet_len9", small_alphabet)]
