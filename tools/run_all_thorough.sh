#!/bin/bash
# Runs every thorough check sequentially (each uses all cores). Logs under out/thorough/.
cd "$(dirname "$0")/.."
mkdir -p out/thorough
for p in ${@:-C17 C18 C13 C01 C02 C04 C05 C06 C12 C14 C15 C16 C19}; do
  /usr/bin/time -f "%e s" ./check $p --tier thorough > out/thorough/$p.log 2>&1
  echo "$p exit=$? $(grep -E '^SUMMARY' out/thorough/$p.log | cut -c1-260)"
  grep -E '^(VIOLATION|HARNESS|NOTE|KNOWN)' out/thorough/$p.log
done
