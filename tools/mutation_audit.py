#!/venv/bin/python
"""Sensitivity audit (development tool, not a registered check).

For each mutant in tools/mutants.json (a small semantic edit of /repo's han/ package): copy /repo to a
scratch directory under /dev/shm, apply the edit, run the repository's own tests there (the mutant must
still pass them, otherwise it is not a change the tests miss), run the listed checks with
VERIF_REPO=<copy>, expect exit 1 with a VIOLATION line, and remove the copy.

usage: tools/mutation_audit.py [mutant-id ...] [--tier quick] [--keep-going]
"""
import json, os, shutil, subprocess, sys, tempfile, time

ROOT = os.path.dirname(os.path.dirname(os.path.abspath(__file__)))


def run(cmd, **kw):
    return subprocess.run(cmd, capture_output=True, text=True, **kw)


def audit(m, tier):
    scratch = tempfile.mkdtemp(prefix="amshan-mut-", dir="/dev/shm")
    try:
        copy = os.path.join(scratch, "repo")
        shutil.copytree("/repo", copy, ignore=shutil.ignore_patterns(".git", "__pycache__", ".pytest_cache", ".benchmarks", "*.egg-info"))
        if "patch" in m:
            p = run(["patch", "-p1", "-s", "-d", copy, "-i", os.path.join(ROOT, m["patch"])])
            if p.returncode:
                return {"id": m["id"], "status": "patch-failed", "detail": p.stderr[-300:] + p.stdout[-300:]}
        else:
            for e in m["edits"]:
                path = os.path.join(copy, e["file"])
                s = open(path).read()
                if s.count(e["old"]) != 1:
                    return {"id": m["id"], "status": f"edit-not-unique({s.count(e['old'])})", "detail": e["old"][:60]}
                open(path, "w").write(s.replace(e["old"], e["new"]))
        t = run(["/venv/bin/python", "-B", "-m", "pytest", "-q", "-p", "no:cacheprovider", "-x"], cwd=copy, env=dict(os.environ, PYTHONPATH=copy, PYTHONDONTWRITEBYTECODE="1"))
        tests_pass = t.returncode == 0
        res = {"id": m["id"], "tests_pass": tests_pass, "checks": {}}
        for prop in m["props"]:
            t0 = time.time()
            c = run([os.path.join(ROOT, "check"), prop, "--tier", tier], cwd=ROOT, env=dict(os.environ, VERIF_REPO=copy, VERIF_EVIDENCE_DIR=os.path.join(scratch, "ev"), VERIF_OUT_DIR=os.path.join(scratch, "out")))
            sigs = [l.strip() for l in c.stdout.splitlines() if l.strip().startswith("signature:")]
            res["checks"][prop] = {"exit": c.returncode, "violations": sum(1 for l in c.stdout.splitlines() if l.startswith("VIOLATION")), "first": sigs[:2], "wall": round(time.time() - t0, 1)}
            if c.returncode not in (0, 1):
                res["checks"][prop]["tail"] = (c.stdout + c.stderr)[-400:]
        hit = any(v["exit"] == 1 and v["violations"] > 0 for v in res["checks"].values())
        if m.get("equivalent"):  # behaviour-preserving rewrite: any alarm would be a false alarm
            res["status"] = "FALSE-ALARM" if hit or any(v["exit"] != 0 for v in res["checks"].values()) else "caught-nothing-as-expected (equivalent rewrite)"
        else:
            res["status"] = "caught" if hit else "MISSED"
        if not tests_pass:
            res["status"] += " (but repo tests fail: " + t.stdout.strip().splitlines()[-1][:80] + ")"
        return res
    finally:
        shutil.rmtree(scratch, ignore_errors=True)


def main():
    args = [a for a in sys.argv[1:] if not a.startswith("--")]
    tier = "quick"
    if "--tier" in sys.argv:
        tier = sys.argv[sys.argv.index("--tier") + 1]
        args = [a for a in args if a != tier]
    mutants = json.load(open(os.path.join(ROOT, "tools", "mutants.json")))
    if args:
        mutants = [m for m in mutants if m["id"] in args or any(a in m["props"] for a in args)]
    missed = 0
    for m in mutants:
        r = audit(m, tier)
        print(json.dumps(r))
        sys.stdout.flush()
        if not r["status"].startswith("caught"):  # MISSED or FALSE-ALARM
            missed += 1
    print(f"AUDIT mutants={len(mutants)} not-caught={missed}")


if __name__ == "__main__":
    main()
