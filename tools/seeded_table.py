#!/venv/bin/python
"""Write seeded/README.md: one row per independently written breakage, with what catches it."""
import glob, json, os
ROOT = os.path.dirname(os.path.dirname(os.path.abspath(__file__)))
rows = []
for f in sorted(glob.glob(os.path.join(ROOT, "seeded", "*", "meta.json"))):
    m = json.load(open(f))
    det = m.get("detected_by") or {}
    caught = [k.split("/")[0] for k, v in det.items() if v["exit"] == 1 and v["violations"] > 0]
    quiet = [k.split("/")[0] for k, v in det.items() if not (v["exit"] == 1 and v["violations"] > 0)]
    first = next((v["first_signatures"][0] for k, v in det.items() if k.startswith(m["property"]) and v.get("first_signatures")), "")
    c = m.get("confirmed")
    rows.append((m["id"], m["property"], m.get("round", 1), m.get("change", "") + ((" -- " + m["verdict"]) if m.get("verdict") else ""), m.get("needs_to_manifest", ""), "yes" if isinstance(c, dict) and c.get("ok") else str(c), ", ".join(caught) or "-", ", ".join(quiet) or "-", first.split(" :: ")[0]))
with open(os.path.join(ROOT, "seeded", "README.md"), "w") as out:
    out.write("# Independently written breakages\n\nEach directory holds `patch.diff` (against `base_commit` of /repo), the author's `demo.py` and `note.md`, and `meta.json` "
              "(what it breaks, what it needs to manifest, what was run, which checks report it). Authors were sub-agents that saw only the property text and a scratch worktree - nothing from /verif. "
              "Regenerate this table with `tools/seeded_table.py` after `tools/seeded_eval.py`.\n\n")
    out.write("| id | property | round | change | needs to manifest | confirmed (tests pass, demo fails with / passes without) | quick checks that report it | related quick checks that stay quiet | first signature of the property's own check |\n|---|---|---|---|---|---|---|---|---|\n")
    for r in rows:
        out.write("| " + " | ".join(str(x).replace("|", "\\|") for x in r) + " |\n")
    n = len(rows)
    own = sum(1 for r in rows if r[1] in r[6].split(", "))
    anyc = sum(1 for r in rows if r[6] != "-")
    out.write(f"\n{n} changes; {own} reported by the quick check of the property they were written against, {anyc} by at least one quick check; the remainder carry a verdict in the change column explaining why they are outside the property as stated.\n")
print(len(rows), "rows")
