#!/bin/bash
# Exercises the KNOWN-FINDING path of the runner on a scratch copy of /repo with the C04 fix reverted:
#  (1) unlisted -> exit 1 + VIOLATION;  (2) listed by signature -> exit 0 + KNOWN-FINDING line;
#  (3) listed, but a second defect (C04 payload off by one) present -> exit 1 for the unlisted signature only.
set -u
HERE="$(cd "$(dirname "$0")/.." && pwd)"
S=$(mktemp -d -p /dev/shm kf-XXXX); trap 'rm -rf "$S"' EXIT
cp -r /repo/han "$S/han"; mkdir -p "$S/ev" "$S/out"
patch -s -p1 -d "$S" -i "$HERE/tools/mutants/revert-p1-checksum0-fix.patch" || exit 2
export VERIF_REPO="$S" VERIF_EVIDENCE_DIR="$S/ev" VERIF_OUT_DIR="$S/out"
cd "$HERE"
./check C04 --runs 8000 > "$S/1.log"; r1=$?
cat > "$S/kf.json" <<J
{"findings":[{"property":"C04","signature":"C04/V2 valid-with-wrong-checksum given=0000","what":"readout ending in !0000 is reported valid whatever its CRC (DataReadout.is_valid treats checksum 0 as absent)","replay":"findings/C04-V2-checksum-0000-accepted.json"}],"fixed":[]}
J
VERIF_KNOWN_FINDINGS="$S/kf.json" ./check C04 --runs 8000 > "$S/2.log"; r2=$?
sed -i 's/return bytes(self._readout\[self._data_pos : self._end_pos\])/return bytes(self._readout[self._data_pos + 1 : self._end_pos])/' "$S/han/dlde.py"
VERIF_KNOWN_FINDINGS="$S/kf.json" ./check C04 --runs 8000 > "$S/3.log"; r3=$?
ok=1
[ $r1 -eq 1 ] && grep -q '^VIOLATION property=C04' "$S/1.log" || { echo "step1 wrong (exit $r1)"; ok=0; }
[ $r2 -eq 0 ] && grep -q '^KNOWN-FINDING: property=C04' "$S/2.log" && ! grep -q '^VIOLATION' "$S/2.log" || { echo "step2 wrong (exit $r2)"; ok=0; }
[ $r3 -eq 1 ] && grep -q '^KNOWN-FINDING: property=C04' "$S/3.log" && grep -q 'signature: C04/V5' "$S/3.log" && ! grep -q 'signature: C04/V2' "$S/3.log" || { echo "step3 wrong (exit $r3)"; ok=0; }
grep -h -E '^(KNOWN-FINDING|VIOLATION|  signature)' "$S/2.log" "$S/3.log" | cut -c1-200
[ $ok -eq 1 ] && echo "KNOWN-FINDINGS SELFCHECK PASSED" || { echo "KNOWN-FINDINGS SELFCHECK FAILED"; exit 1; }
