"""Message pool for rig A: vendored genuine messages (frame content, bare body, P1 readouts),
template-patched variants, and history faults (truncate, mutate, junk, unbalanced parentheses)."""
from __future__ import annotations

import json
import os

from dst.world import cosem_tlv

_HERE = os.path.dirname(os.path.abspath(__file__))
_CORPUS = None


def corpus():
    global _CORPUS
    if _CORPUS is None:
        with open(os.path.join(_HERE, "..", "corpus", "genuine.json")) as f:
            items = json.load(f)
        out = []
        for c in items:
            data = bytes.fromhex(c["hex"])
            if c["form"] == "readout":
                data = data.lstrip()
                start = data.index(b"\n") + 1
                end = data.index(b"!")
                out.append({"name": c["name"], "meter": "P1", "form": "p1", "data": data[start:end], "readout": data})
            else:
                out.append({"name": c["name"], "meter": c["meter"], "form": c["form"], "data": data})
        _CORPUS = out
    return _CORPUS


_MULTI = None


def multiform():
    """Payloads (mined offline from mutants and splices of the genuine corpus) that decoders of different forms accept
    at the same time - frame and bare-body decoders, or binary and P1 - so that the order in which the table is walked matters."""
    global _MULTI
    if _MULTI is None:
        with open(os.path.join(_HERE, "..", "corpus", "multiform.json")) as f:
            _MULTI = [bytes.fromhex(v) for _, v in sorted(json.load(f).items())]
    return _MULTI


def own_decoder(entry) -> str:
    if entry["meter"] == "P1":
        return "P1"
    return f"{entry['meter']}_{'frame' if entry['form'] == 'frame' else 'notification_body'}"


def patched(rng, entry) -> bytes:
    """A genuine message with PRNG register values (structure untouched)."""
    data = entry["data"]
    if entry["form"] == "p1":
        if rng.random() < 0.15:  # a free-text value padded with blanks
            data = data.replace(b"(", b"( ", 1) if rng.random() < 0.5 else data.replace(b")", b" )", 1)
        out = bytearray(data)
        for i, b in enumerate(out):
            if 0x30 <= b <= 0x39 and rng.random() < 0.3 and i > 0 and out[i - 1] not in b"-:.(" and (i + 1 >= len(out) or out[i + 1] not in b"-:"):
                out[i] = 0x30 + rng.randrange(10)
        return bytes(out)
    start = 0 if entry["form"] == "body" else cosem_tlv.body_offset(data)
    if start is None:
        return data
    return cosem_tlv.patch(rng, data, start)


HOT_VALUES = [0xFF, 0x00, 0x01, 0x02, 0x09, 0x0A, 0x06, 0x12, 0x10, 0x0F, 0x16, 0x0C, 0x80, 0x7F]


DT_VALUES = [0x00, 0xFF, 0xFE, 0xFD, 0x80, 0x0D, 0x1F, 0x20, 0x3C, 0x63, 0x64, 0x7F]


def mutate_datetime(rng, data: bytes):
    """1..3 octets inside a located 12-octet COSEM date-time set to values the standard gives a special meaning
    (0xFF not specified, 0xFE last day, 0xFD second-last day, 0x80 deviation not specified) or to out-of-range values."""
    spots = [i + 2 for i in range(len(data) - 13) if data[i] == 0x09 and data[i + 1] == 0x0C]
    if len(data) > 21 and data[:4] == b"\xe6\xe7\x00\x0f" and data[8] == 0x0C:
        spots.append(9)
    if not spots:
        return None
    out = bytearray(data)
    base = rng.choice(spots)
    for _ in range(rng.randint(1, 3)):
        out[base + rng.randrange(12)] = rng.choice(DT_VALUES + [rng.randrange(256)])
    return bytes(out)


def mutate(rng, data: bytes) -> bytes:
    """1..5 octets changed, biased to type tags / lengths / OBIS / date-time octets -> hot values."""
    if not data:
        return data
    if rng.random() < 0.15:
        dt = mutate_datetime(rng, data)
        if dt is not None:
            return dt
    out = bytearray(data)
    leaves = None
    for _ in range(rng.randint(1, 5)):
        r = rng.random()
        if r < 0.35:
            if leaves is None:
                start = cosem_tlv.body_offset(data) or 0
                lv = cosem_tlv.leaves_of(data[start:])
                leaves = [(start + l.pos, l.length) for l in lv] if lv else []
            if leaves:
                pos, length = rng.choice(leaves)
                p = pos + rng.choice([-2, -1, -1, 0, 0, 1, length - 1])
                if 0 <= p < len(out):
                    out[p] = rng.choice(HOT_VALUES)
                    continue
        p = rng.randrange(len(out))
        k = rng.random()
        if k < 0.5:
            out[p] = rng.choice(HOT_VALUES)
        elif k < 0.75:
            out[p] = rng.randrange(256)
        elif k < 0.9:
            out[p] ^= 1 << rng.randrange(8)
        else:
            del out[p]
            if not out:
                break
    return bytes(out)


def p1_garbage(rng) -> bytes:
    """ASCII fragments with unbalanced parentheses / trailing garbage on a line."""
    pieces = ["1-0:1.8.0", "0-0:96.1.1", "(", ")", "(", ")", "*", "kWh", "000123.456", "\r\n", "\n", " ", "x", "1.2.3", "()", "((", "))", "0-0:1.0.0(210101120000W)", "!", "/", "1-0:1.7.0(01.193*kW)"]
    n = rng.randint(1, 12)
    return "".join(rng.choice(pieces) for _ in range(n)).encode()


NUMERIC_TOKENS = [b"inf", b"-Infinity", b"nan", b"1e400", b"0001e306", b"1e999", b"1e199996", b"1E999996", b"-0", b"1_000.5", b"0x10", b".", b"1..2", b"+1.5", b"9" * 40, b"1e-999999"]


def p1_numeric_token(rng, block: bytes) -> bytes:
    """Replace one numeric value '(digits.digits' by a token Python's float()/Decimal() treat specially."""
    import re

    spans = [m.span(1) for m in re.finditer(rb"\((\d+\.\d+)", block)]
    if not spans:
        return block
    a, b = rng.choice(spans)
    return block[:a] + rng.choice(NUMERIC_TOKENS) + block[b:]


def p1_mutated(rng, block: bytes) -> bytes:
    if rng.random() < 0.25:
        return p1_numeric_token(rng, block)
    out = bytearray(block)
    for _ in range(rng.randint(1, 4)):
        if not out:
            break
        k = rng.random()
        targets = [i for i, b in enumerate(out) if b in b"()*"]
        if k < 0.5 and targets:
            i = rng.choice(targets)
            if rng.random() < 0.6:
                del out[i]
            else:
                out[i] = rng.choice(b"()*x ")
        elif k < 0.7:
            i = rng.randrange(len(out))
            out[i:i] = rng.choice([b"(", b")", b"garbage", b"*", b"(x"])
        elif k < 0.85:
            del out[rng.randrange(len(out)) :]
        else:
            out[rng.randrange(len(out))] = rng.randrange(0x20, 0x7F)
    return bytes(out)


def draw_payload(rng):
    """-> (payload bytes, description dict). One element of a history."""
    pool = corpus()
    r = rng.random()
    e = rng.choice(pool)
    if rng.random() < 0.06:
        return rng.choice(multiform()), {"k": "multiform"}
    if r < 0.3:
        return e["data"], {"k": "genuine", "src": e["name"]}
    if r < 0.5:
        return patched(rng, e), {"k": "patched", "src": e["name"]}
    if r < 0.62:
        d = e["data"]
        return d[: rng.randint(0, len(d))], {"k": "truncate", "src": e["name"]}
    if r < 0.82:
        if e["form"] == "p1" and rng.random() < 0.7:
            return p1_mutated(rng, e["data"]), {"k": "p1_mutate", "src": e["name"]}
        return mutate(rng, e["data"]), {"k": "mutate", "src": e["name"]}
    if r < 0.9:
        return p1_garbage(rng), {"k": "unbalanced_paren"}
    if r < 0.95:
        return rng.randbytes(rng.randint(0, 80)), {"k": "junk"}
    return bytes(rng.choice(b"0123456789().*:-kWh\r\n ") for _ in range(rng.randint(1, 60))), {"k": "ascii_junk"}


_P1_OBIS = None


def obis_codes(entry):
    """OBIS codes (six values A..F) carried by a corpus entry: '09 06 A B C D E F' octet strings in binary
    messages, 'A-B:C.D.E' addresses in P1 blocks (F = 255)."""
    import re

    data = entry["data"]
    if entry["form"] == "p1":
        return [tuple(int(g) for g in m.groups()) + (255,) for m in re.finditer(rb"(\d+)-(\d+):(\d+)\.(\d+)\.(\d+)", data)]
    return [tuple(data[i + 2 : i + 8]) for i in range(len(data) - 7) if data[i] == 0x09 and data[i + 1] == 0x06 and data[i + 7] == 0xFF]


def obis_cross(rng, donor, entry):
    """`entry`'s message with one of its OBIS codes replaced by a code the `donor` message carries (codes wander
    between meters and forms: what one decoder has seen, another is offered). None when either has no codes."""
    import re

    codes = obis_codes(donor)
    if not codes:
        return None
    code = rng.choice(codes)
    data = entry["data"]
    if entry["form"] == "p1":
        spans = [m.span() for m in re.finditer(rb"\d+-\d+:\d+\.\d+\.\d+", data)]
        if not spans:
            return None
        a, b = rng.choice(spans)
        return data[:a] + ("%d-%d:%d.%d.%d" % code[:5]).encode() + data[b:]
    spots = [i + 2 for i in range(len(data) - 7) if data[i] == 0x09 and data[i + 1] == 0x06 and data[i + 7] == 0xFF]
    if not spots:
        return None
    pos = rng.choice(spots)
    return data[:pos] + bytes(v & 0xFF for v in code) + data[pos + 6 :]


def weird_ident(rng) -> bytes:
    """Identification lines (without line end) from well-formed to damaged: long ids, control
    characters that str.strip() keeps or removes, escapes, lower-case flag ids."""
    base = rng.choice([b"/ABC5", b"/KMP5 ", b"/LGF5E360", b"/ELL5\\253833635_A", b"/XMX5LGBBFFB231314239", b"/Abc9"])
    n = rng.choice([0, 3, 16, 17, 24, 30, 40, 64])
    body = bytes(rng.choice(b"ABCDEFGHIJKLMNOPQRSTUVWXYZ0123456789 _-.") for _ in range(n))
    out = bytearray(base + body)
    for _ in range(rng.choice([0, 0, 1, 1, 2])):
        pos = rng.randrange(1, len(out) + 1)
        out.insert(pos, rng.choice([0x01, 0x07, 0x1B, 0x7F, 0x1C, 0x1F, 0x09, 0x0B, 0x00, 0x5C, 0x80, 0xFF]))
    if rng.random() < 0.15:
        out.insert(rng.randrange(1, len(out) + 1), 0x21)  # '!' is a printable character: the ident pattern accepts it
    return bytes(out).replace(b"\n", b"_")
