"""Rig R: drive a real reader (HdlcFrameReader / ModeDReader) with a fragmented byte stream."""
from __future__ import annotations

from dst.world import fragment

LINE_RATE = 2400 / 10.0  # octets per simulated second at 2400 baud 8N1 (bookkeeping only)


def make_reader(kind: str, cfg=None):
    if kind == "hdlc":
        from han.hdlc import HdlcFrameReader

        stuffing, abort = cfg if cfg is not None else (False, False)
        return HdlcFrameReader(bool(stuffing), bool(abort))
    from han.dlde import ModeDReader

    return ModeDReader()


class Feed:
    """Result of feeding chunks: messages per call, or the first escaping exception."""

    def __init__(self) -> None:
        self.calls = []  # (chunk_len, [messages])
        self.messages = []
        self.error = None  # (first failing call index, exception)
        self.errors = 0
        self.probes = {}


def feed(reader, wire: bytes, cutspec: dict, probe=None, bystander=None, keep_going: bool = False) -> Feed:
    """`bystander`: optional (other reader instance, its own byte stream): another connection of the same
    process whose reader is fed between our calls. Instances must not influence each other."""
    out = Feed()
    as_bytearray = cutspec.get("as") == "bytearray"
    by = Bystander(bystander[0], bystander[1]) if bystander else None
    for idx, chunk in enumerate(fragment.chunks(wire, cutspec)):
        if by is not None:
            by.step(idx)
        if as_bytearray:
            chunk = bytearray(chunk)  # transports may hand over a bytearray; the reader must not depend on the type
        try:
            msgs = reader.read(chunk)
        except Exception as ex:  # noqa: BLE001 - reported by C14; other checks count the run as void
            if out.error is None:
                out.error = (idx, ex)
            out.errors += 1
            if keep_going:  # like an event loop that logs the exception and keeps delivering data
                continue
            break
        out.calls.append((len(chunk), msgs))
        out.messages.extend(msgs)
        if probe is not None:
            probe(reader, chunk, out.probes)
    return out


class Bystander:
    """Another connection of the same process: its own reader instance, fed its own traffic between our
    calls, and re-created now and then (that connection re-connects). Instances must be isolated."""

    def __init__(self, reader, wire: bytes) -> None:
        self.reader = reader
        self.wire = wire
        self.pos = 0
        self.cls_args = None

    def step(self, idx: int) -> None:
        if self.reader is None:
            return
        if idx % 9 == 5:  # the other connection drops and comes back: a fresh reader object is constructed
            try:
                cls = type(self.reader)
                if cls.__name__ == "HdlcFrameReader":
                    self.reader = cls(bool(getattr(self.reader, "_use_octet_stuffing", False)), bool(getattr(self.reader, "_use_abort_sequence", False)))
                else:
                    self.reader = cls()
            except Exception:  # noqa: BLE001
                self.reader = None
                return
        if self.pos >= len(self.wire):
            self.pos = 0
        step = 1 + (idx * 7) % 23
        try:
            self.reader.read(self.wire[self.pos : self.pos + step])
        except Exception:  # noqa: BLE001 - the bystander's own trouble is not judged here
            self.reader = None
        self.pos += step


def exc_site(ex: BaseException) -> str:
    """Innermost han/ frame of an exception: 'file.py:function'."""
    import os
    import traceback

    site = "unknown"
    for fs in traceback.extract_tb(ex.__traceback__):
        if os.sep + "han" + os.sep in fs.filename:
            site = f"{os.path.basename(fs.filename)}:{fs.name}"
    return site


def hdlc_sig(frame):
    """Everything observable about a returned frame (for differential comparison)."""
    h = frame.header
    return (
        frame.as_bytes.hex(),
        bool(frame.is_valid),
        None if frame.payload is None else frame.payload.hex(),
        frame.frame_check_sequence,
        h.frame_length,
        None if h.destination_address is None else h.destination_address.hex(),
        None if h.source_address is None else h.source_address.hex(),
        h.control,
        h.header_check_sequence,
    )


def reader_state(reader) -> tuple:
    """Coarse reader state at a call boundary, read through public properties only (probe, never oracle)."""
    hunt = getattr(reader, "is_in_hunt_mode", None)
    esc = getattr(reader, "unescape_next", None)
    return (bool(hunt), None if esc is None else bool(esc))


def trace_feed(kind: str, cfg, wire: bytes, cutspec: dict, limit: int = 300):
    """Readable call-by-call trace for replay files: chunk, reader state, messages returned."""
    reader = make_reader(kind, cfg)
    pos = 0
    for idx, chunk in enumerate(fragment.chunks(wire, cutspec)):
        if idx >= limit:
            yield f"... ({len(wire) - pos} more octets)"
            return
        try:
            msgs = reader.read(chunk)
            out = ", ".join(f"{type(m).__name__}[{len(m.as_bytes)}]{'' if m.is_valid else '!invalid'}" for m in msgs)
        except Exception as ex:  # noqa: BLE001
            out = f"RAISED {ex!r}"
        head = chunk[:24].hex() + ("..." if len(chunk) > 24 else "")
        yield f"read#{idx} @{pos} len={len(chunk)} {head} -> [{out}] state(hunt,esc)={reader_state(reader)}"
        pos += len(chunk)
