"""C18 - reconnect pacing: capped exponential back-off and the loss breaker.

Manager part on rig M (no close(), no clock jumps; wall clock == virtual clock through the shim):
timing bounds T1..T4 over the recorded virtual-time history.  Strategy part: failure()/reset()
histories against the model n -> min(2^(n-1), max_delay).
"""
from __future__ import annotations

import copy

from dst.core import prng, shrink
from dst.world import manager_rig

PROP = "C18"
LEVEL = "exploration"
TECHNIQUE = "deterministic simulation on a virtual-time asyncio loop with scripted connect failures/losses; timing bounds checked over the recorded virtual-time history; strategy object against a reference model over seeded call histories"
DESIGN_REF = "DESIGN.md section 4.12"
LEVEL_TEXT = (
    "Seeded search over attempt-outcome/loss histories and configurations with exact virtual time stamps, so lower bounds are "
    "checked to 1e-6 s and upper bounds with 0.1 s slack; sampling, not proof. The strategy object is compared with the closed-form "
    "model on seeded histories (plus a bounded exhaustive supplement in the thorough tier)."
)
RUNS = {"quick": 120000, "thorough": 4000000}
CHUNK = {"quick": 100, "thorough": 500}
BUDGET_S = {"quick": 90, "thorough": 1500}
RULE = (
    "run = seeded manager history (<=8 attempt outcomes ok/fail/slow with connection lifetimes on a grid straddling the "
    "breaker threshold; max_delay in {1,2,3,5,8,60}; threshold/sleep in {0,1,5,7}) executed on the virtual-time loop, or a "
    "seeded failure()/reset() sequence (<=200 ops, max_delay 1..3600) on the strategy object. Non-trivial = at least one "
    "pacing obligation (T1/T2 after a failure, T4 after two close losses, or a strategy comparison) was evaluated; "
    "distinct = distinct scenario digest."
)
STATE_MEASURE = "distinct (consecutive-failure count n, breaker armed?, config) tuples at which a pacing bound was evaluated"
REAL = ["han.meter_connection.ConnectionManager", "han.meter_connection.ExponentialBackOff", "han.meter_connection.SmartMeterMessagePayloadProtocol", "asyncio Task/Future/Event/wait/sleep (CPython)"]
STUB = ["event loop clock+selector (VLoop)", "wall clock (datetime shim -> virtual time)", "connection factory (scripted)", "transport (FakeTransport)"]
ASSUMPTIONS = [
    "the manager's wall clock is redirected to the virtual clock (module attribute han.meter_connection.datetime); when no known clock name can be patched the breaker clause T4 is only judged on losses with identical virtual time",
    "scheduling slack of 0.1 virtual seconds in upper bounds; lower bounds are exact (1e-6)",
    "n = 0 (no failure since reset) is not constrained by the statement beyond being <= the n = 1 value",
]
MUST_FIRE = {"quick": ["T1_checked", "T4_checked", "strategy_cmp", "daylight_saving_switch_between_two_losses"], "thorough": ["T1_checked", "T4_checked", "strategy_cmp", "T1_capped"]}

EPS = 1e-6
SLACK = 0.1
DGRID = [0, 0, 0.5, 1, 2]
LIFE = [0, 0.5, 1, 2, 4, 4.5, 5, 5.5, 6.5, 7, 8, 12]


def gen(rng, tier, index):
    if rng.random() < 0.25:
        n = rng.randint(1, 200) if rng.random() < 0.5 else rng.randint(1, 20)
        if rng.random() < 0.02:
            n = rng.randint(1030, 1300)  # counters, shifts and float powers overflow beyond 1024 failures
        p_reset = rng.choice([0.0, 0.05, 0.2, 0.5])
        ops = "".join("r" if rng.random() < p_reset else "f" for _ in range(n))
        yield {"kind": "strategy", "max_delay": rng.choice([1, 2, 3, 59, 60, 61, 64, 3600, rng.randint(1, 3600)]), "ops": ops}
        return
    script = []
    long_outage = rng.random() < 0.15
    for _ in range(rng.randint(1, 8)):
        if long_outage:  # a long outage: the back-off must climb to its cap and stay there
            script.append({"o": "fail", "d": rng.choice([0, 0, 0.5]), "noargs": rng.random() < 0.25, "exc": rng.choice(["OSError", "TimeoutError", "EOFError"])})
        elif rng.random() < 0.45:
            # lifetimes on the coarse grid, or on a 1/16 s grid (exact in binary and in datetime's microseconds)
            life = rng.choice(LIFE) if rng.random() < 0.65 else rng.randrange(0, 9 * 16) / 16
            script.append({"o": "ok", "d": rng.choice(DGRID), "life": life})
        else:
            script.append({"o": "fail", "d": rng.choice(DGRID), "exc": rng.choice(["OSError", "OSError", "TimeoutError", "RuntimeError", "ValueError"]), "noargs": rng.random() < 0.25})
    dst = None
    if rng.random() < 0.15:
        # a daylight-saving switch during the run: naive local time (datetime.now()) jumps by an hour, UTC does not
        est = sum(float(st.get("d") or 0) + float(st.get("life") or 0) for st in script)
        dst = {"at": round(rng.uniform(0.0, est + 6.0), 3), "sec": rng.choice([3600.0, -3600.0])}
    yield {
        "kind": "manager",
        "dst": dst,
        "script": script,
        "cycle": False,
        "tail": {"o": "fail", "d": 0} if long_outage else rng.choice([{"o": "ok", "d": 0, "life": None}, {"o": "fail", "d": 0}]),
        "cfg": {"max_delay": rng.choice([1, 2, 3, 5, 8, 60, None, 100, 3600] if long_outage else [1, 2, 3, 5, 8, 60, None]), "thr": rng.choice([0, 1, 5, 7, None]), "slp": rng.choice([0, 1, 5, 7, None])},
        "stream": None,
        "close": None,
        "jump": None,
        "restart": None,
        "horizon": 20000.0 if long_outage else 200.0,
        "max_attempts": len(script) + (rng.randint(4, 9) if long_outage else 3),
    }


def _strategy(sc):
    import han.meter_connection as mc

    viol = []
    probes = {"strategy_cmp": 0}
    states = set()
    b = mc.ExponentialBackOff()
    b.max_delay = sc["max_delay"]
    n = 0
    log = []
    for i, op in enumerate(sc["ops"]):
        if op == "f":
            b.failure()
            n += 1
        else:
            b.reset()
            n = 0
        got = b.current_delay_sec
        log.append(got)
        probes["strategy_cmp"] += 1
        if n >= 1:
            want = min(2 ** (n - 1), sc["max_delay"])
            if want == sc["max_delay"]:
                probes["strategy_capped"] = probes.get("strategy_capped", 0) + 1
            states.add(("s", min(n, 14), want == sc["max_delay"]))
            if got != want:
                viol.append({"sig": f"C18/S1 strategy-delay-wrong {'capped' if want == sc['max_delay'] else 'uncapped'}", "detail": f"after op #{i} (n={n}, max_delay={sc['max_delay']}): current_delay_sec={got}, expected {want}"})
                break
        else:
            if not (0 <= got <= min(1, sc["max_delay"])):
                viol.append({"sig": "C18/S2 strategy-delay-after-reset", "detail": f"after reset (op #{i}): current_delay_sec={got}"})
                break
    return {
        "violations": viol,
        "digest": prng.digest([sc["max_delay"], log]),
        "nontrivial": True,
        "key": prng.digest(sc),
        "faults": {"strategy_failure_calls": sc["ops"].count("f"), "strategy_reset_calls": sc["ops"].count("r")},
        "probes": probes,
        "states": states,
        "sim_s": 0.0,
        "summary": sc,
    }


def execute(sc):
    if sc["kind"] == "strategy":
        return _strategy(sc)
    rig = manager_rig.ManagerRig(sc).run()
    cfg = sc.get("cfg") or {}
    max_delay = cfg.get("max_delay") if cfg.get("max_delay") is not None else 60
    thr = cfg.get("thr") if cfg.get("thr") is not None else 5
    slp = cfg.get("slp") if cfg.get("slp") is not None else 5
    viol = []
    probes = {}
    states = set()

    def bump(k):
        probes[k] = probes.get(k, 0) + 1

    def add(clause, facts, detail):
        sig = f"C18/{clause} {facts}"
        if not any(v["sig"] == sig for v in viol):
            viol.append({"sig": sig, "detail": detail})

    ev = rig.events
    n = 0
    last_loss = None
    armed_pair = None  # (t1, t2) of two losses within the threshold, awaiting the next attempt
    pending_fail = None  # (t_fail, n)
    clock_ok = bool(rig.clock_names)
    for e in ev:
        kind, t = e[0], e[1]
        if kind == "attempt_start":
            if pending_fail is not None:
                tf, nf = pending_fail
                want = min(2 ** (nf - 1), max_delay)
                gap = t - tf
                bump("T1_checked")
                if want == max_delay:
                    bump("T1_capped")
                states.add((min(nf, 9), armed_pair is not None, max_delay, slp))
                if gap < want - EPS:
                    add("T1", f"retry-too-early n={min(nf, 4)}{'+' if nf > 4 else ''}", f"failure #{nf} at t={tf}, next attempt at t={t}: waited {gap}, minimum {want} (max_delay={max_delay})")
                if gap > max(want, slp) + SLACK:
                    add("T2", f"retry-too-late n={min(nf, 4)}{'+' if nf > 4 else ''}", f"failure #{nf} at t={tf}, next attempt at t={t}: waited {gap}, maximum {max(want, slp)}+{SLACK}")
                pending_fail = None
            if armed_pair is not None:
                t1, t2 = armed_pair
                bump("T4_checked")
                if t - t2 < slp - EPS:
                    add("T4", "breaker-sleep-skipped", f"losses at t={t1} and t={t2} (threshold {thr}); next attempt at t={t}: waited {t - t2}, minimum {slp}")
                armed_pair = None
        elif kind == "attempt_fail":
            n += 1
            pending_fail = (t, n)
        elif kind == "attempt_ok":
            n = 0
        elif kind == "loss":
            if last_loss is not None:
                delta = t - last_loss
                judge = abs(delta - thr) > 1e-6 and (clock_ok or delta < 1e-9)
                if judge and delta < thr:
                    armed_pair = (last_loss, t)
                    bump("breaker_armed")
                elif judge:
                    bump("breaker_not_armed")
            last_loss = t
    fails = sum(1 for e in ev if e[0] == "attempt_fail")
    losses = sum(1 for e in ev if e[0] == "loss")
    if rig.clock.reads:
        bump("wall_clock_reads_via_shim")
    if sc.get("dst"):
        bump("daylight_saving_switch")
        if any(a[0] == "loss" and b[0] == "loss" and a[1] < sc["dst"]["at"] <= b[1] for a, b in zip([e for e in ev if e[0] == "loss"], [e for e in ev if e[0] == "loss"][1:])):
            bump("daylight_saving_switch_between_two_losses")
    return {
        "violations": viol,
        "digest": prng.digest([ev, [v["sig"] for v in viol]]),
        "nontrivial": bool(probes.get("T1_checked") or probes.get("T4_checked")),
        "key": prng.digest(sc),
        "faults": {"connect_fail": fails, "loss": losses, "connect_slow": sum(1 for s in sc["script"] if s.get("d"))},
        "probes": probes,
        "states": states,
        "sim_s": rig.end_time,
        "summary": {"scenario": {k: sc.get(k) for k in ("script", "tail", "cfg", "dst")}, "attempt_times": [[e[0], e[1]] for e in ev if e[0].startswith("attempt") or e[0] == "loss"][:20]},
    }


def summarise(sc):
    return sc


def trace(sc):
    if sc["kind"] == "strategy":
        return
    rig = manager_rig.ManagerRig(sc).run()
    for e in rig.events:
        yield f"t={e[1]:<10} iter={e[2]:<5} {e[0]} {dict(e[3])}"


def candidates(sc):
    if sc["kind"] == "strategy":
        for red in shrink.list_reductions(list(sc["ops"])):
            yield dict(sc, ops="".join(red))
        for m in (1, 2, 60):
            if m < sc["max_delay"]:
                yield dict(sc, max_delay=m)
        return
    if sc.get("dst"):
        yield dict(copy.deepcopy(sc), dst=None)
    for red in shrink.list_reductions(sc["script"]):
        yield dict(copy.deepcopy(sc), script=red, max_attempts=len(red) + 3)
    for i, spec in enumerate(sc["script"]):
        if spec.get("d"):
            s2 = copy.deepcopy(sc)
            s2["script"][i]["d"] = 0
            yield s2
        if spec["o"] == "ok" and spec.get("life") not in (0, 1):
            for life in (0, 1):
                s2 = copy.deepcopy(sc)
                s2["script"][i]["life"] = life
                yield s2
    for k, v in (sc.get("cfg") or {}).items():
        if v is not None:
            s2 = copy.deepcopy(sc)
            s2["cfg"][k] = None
            yield s2


def supplements(tier):
    if tier != "thorough":
        return []

    def exhaustive():
        import itertools

        count = 0
        viol = []
        for max_delay in (1, 2, 5, 60, 3600):
            for length in range(1, 15):
                for ops in itertools.product("fr", repeat=length):
                    if length < 14 and max_delay not in (5, 60):
                        continue
                    count += 1
                    res = _strategy({"kind": "strategy", "max_delay": max_delay, "ops": "".join(ops)})
                    for v in res["violations"]:
                        viol.append({"sig": v["sig"], "detail": v["detail"], "index": -1, "scenario": {"kind": "strategy", "max_delay": max_delay, "ops": "".join(ops)}})
                    if viol:
                        return {"evaluations": count, "exhaustive": False, "viol": viol, "what": "strategy sequences up to length 14 (stopped at first violation)"}
        return {"evaluations": count, "exhaustive": True, "viol": [], "what": "all failure()/reset() sequences of length <=14 for max_delay in {5,60} and of length 14 for {1,2,3600} (bounded enumeration, supplement only)"}

    return [("strategy_exhaustive_len14", exhaustive)]
