"""C17 - ConnectionManager: one connection at a time, and close() really stops it.

Rig M.  For every seeded scenario (attempt outcome script x connection lifetimes x configuration)
the run without close() is executed first (liveness, one-connection, task bound); then close() is
injected at event-loop iterations of that run and at positions of the iteration's ready queue:
every iteration x {front, middle, back} in the thorough tier, a seeded sample in the quick tier.
"""
from __future__ import annotations

import copy

from dst.core import prng, shrink
from dst.world import manager_rig

PROP = "C17"
LEVEL = "fault_enumeration"
TECHNIQUE = "deterministic simulation on a virtual-time asyncio loop; close()/loss/clock-jump fault injection at every loop iteration x ready-queue position of seeded scenarios; invariant monitors per iteration + history checks"
DESIGN_REF = "DESIGN.md section 4.11"
LEVEL_TEXT = (
    "Seeded scenarios (attempt outcome scripts, lifetimes, configurations) of the real ConnectionManager on a simulator-owned "
    "event loop; within each scenario close() is injected at every loop iteration and several ready-queue positions (thorough) "
    "- enumeration of the fault points of a sampled scenario, not of all scenarios. Safety invariants are checked after every "
    "iteration, stop/cleanup/liveness clauses over the recorded history. Evidence, not proof."
)
RUNS = {"quick": 2400, "thorough": 3000}
CHUNK = {"quick": 4, "thorough": 8}
BUDGET_S = {"quick": 90, "thorough": 1500}
RULE = (
    "run = seeded scenario (script of <=6 attempt outcomes from ok/fail/slow/hang x connection lifetime grid x "
    "max_delay/threshold/sleep x optional meter stream, wall-clock jump, restart); its no-close execution plus "
    "close() spliced at (iteration k, ready-queue position p): every k x {front,middle,back} (thorough) or a seeded "
    "sample (quick); plus soak runs of hundreds..thousands of reconnect cycles. Non-trivial = a failure or loss "
    "occurred (no-close) or close() landed after the first attempt started; distinct = distinct scenario digest."
)
STATE_MEASURE = "distinct (manager phase at close injection, same-iteration flags, attempt-outcome prefix) tuples"
REAL = [
    "han.meter_connection.ConnectionManager",
    "han.meter_connection.ExponentialBackOff",
    "han.meter_connection.SmartMeterMessagePayloadProtocol",
    "han.hdlc.HdlcFrameReader",
    "han.dlde.ModeDReader",
    "asyncio Task/Future/Event/Queue/wait/sleep (CPython)",
]
STUB = [
    "event loop clock+selector (VLoop, virtual time)",
    "wall clock (datetime shim -> virtual time)",
    "connection factory (scripted outcomes)",
    "transport (FakeTransport: close/loss -> connection_lost once via call_soon)",
    "meter (fixed HDLC frame stream)",
]
ASSUMPTIONS = [
    "asyncio's FIFO order of its own callbacks is kept; only external events (close, loss, clock jump) are placed by the scheduler",
    "a transport delivers connection_lost exactly once via call_soon after close() or loss, like asyncio transports",
    "real sockets / pyserial / the two factory modules are not executed",
    "sampling of scenarios; exhaustive only over close() injection points of each scenario in the thorough tier",
]
MUST_FIRE = {
    "quick": ["close_phase=before_first_step", "close_phase=backoff_sleep", "close_phase=pending_attempt", "close_phase=connected", "soak_runs", "outage_over_1024_failures", "default_config_outage_reached_cap"],
    "thorough": ["close_phase=backoff_sleep", "close_phase=pending_attempt", "close_phase=connected", "close_same_iter=attempt_end", "close_same_iter=loss", "soak_runs", "loss_injected_at_iteration", "close_called_again"],
}

GRID = [0, 0, 0.5, 1, 2, 4, 5, 8]
EXC = ["OSError", "OSError", "ConnectionRefusedError", "TimeoutError", "asyncio.TimeoutError", "RuntimeError", "ValueError", "KeyError", "EOFError"]
LIFE = [None, None, 0, 0.5, 1, 2, 4, 5, 8, 60]


def _spec(rng):
    r = rng.random()
    y = rng.choice([0, 0, 0, 1, 2])
    if r < 0.5:
        return {"o": "ok", "d": rng.choice(GRID), "life": rng.choice(LIFE), "y": y}
    if r < 0.93:
        return {"o": "fail", "d": rng.choice(GRID), "y": y, "exc": rng.choice(EXC), "noargs": rng.random() < 0.3}
    return {"o": "hang", "d": 0}


def _base(rng, index):
    if index % 40 == 7:
        return _soak(rng)
    if index % 400 == 23:
        return _outage(rng)
    if index % 25 == 11:
        # an outage under the default configuration: the back-off climbs 1, 2, 4, ... to its cap of 60 s and must keep retrying there
        return {"kind": "script", "script": [{"o": "fail", "d": rng.choice([0, 0, 0.5]), "exc": rng.choice(EXC), "noargs": rng.random() < 0.3} for _ in range(rng.randint(1, 3))], "cycle": False,
                "tail": {"o": "fail", "d": 0}, "cfg": {"max_delay": None, "thr": None, "slp": None}, "stream": None, "close": None, "jump": None, "restart": None, "horizon": 400.0, "default_outage": True}
    script = [_spec(rng) for _ in range(rng.randint(1, 6))]
    tail = rng.choice(
        [
            {"o": "ok", "d": 0, "life": None},
            {"o": "ok", "d": rng.choice(GRID), "life": rng.choice([1, 2, 5, 8])},
            {"o": "fail", "d": rng.choice(GRID)},
        ]
    )
    cfg = {
        "max_delay": rng.choice([None, 1, 2, 3, 5, 8]),
        "thr": rng.choice([None, None, 0, 1, 5, 7]),
        "slp": rng.choice([None, None, 0, 1, 5, 7]),
    }
    sc = {
        "kind": "script",
        "script": script,
        "cycle": False,
        "tail": tail,
        "cfg": cfg,
        "stream": rng.choice([None, None, None, 1.0, 2.5]),
        "close": None,
        "jump": None,
        "restart": None,
        "horizon": rng.choice([40.0, 80.0, 150.0]),
    }
    if rng.random() < 0.1:
        sc["jump"] = {"iter": rng.randint(1, 60), "sec": rng.choice([-3600.0, -5.0, 3.0, 3600.0])}
    return sc


def _outage(rng):
    """A very long outage: more than 1024 consecutive failed attempts (counters, shifts and powers overflow there)."""
    return {
        "kind": "soak",
        "script": [{"o": "fail", "d": 0, "exc": rng.choice(EXC), "noargs": rng.random() < 0.3}],
        "cycle": True,
        "tail": None,
        "cfg": {"max_delay": rng.choice([1, 2]), "thr": rng.choice([0, 5]), "slp": rng.choice([0, 1])},
        "stream": None,
        "close": None,
        "jump": None,
        "restart": None,
        "horizon": 1e9,
        "max_attempts": None,
        "max_iter": 2_000_000,
        "outage": True,
    }


def _soak(rng):
    script = []
    for _ in range(rng.randint(2, 5)):
        if rng.random() < 0.6:
            script.append({"o": "ok", "d": rng.choice([0, 0, 0.5]), "life": rng.choice([0, 0.5, 1, 6])})
        else:
            script.append({"o": "fail", "d": rng.choice([0, 0.5])})
    if not any(s["o"] == "ok" for s in script):
        script.append({"o": "ok", "d": 0, "life": 1})
    return {
        "kind": "soak",
        "script": script,
        "cycle": True,
        "tail": None,
        "cfg": {"max_delay": rng.choice([1, 2, 5]), "thr": rng.choice([0, 1, 5]), "slp": rng.choice([0, 1, 5])},
        "stream": None,
        "close": None,
        "jump": None,
        "restart": None,
        "horizon": 1e9,
        "max_attempts": None,  # filled in by gen
        "max_iter": 2_000_000,
    }


def gen(rng, tier, index):
    base = _base(rng, index)
    if base["kind"] == "soak":
        base["max_attempts"] = (1200 if base.get("outage") else 400) if tier == "quick" else (5000 if base.get("outage") else 20000)
        yield base
        return
    dry = manager_rig.ManagerRig(dict(base, stop_on_violation=False)).run()
    n_iter = dry.end_iter
    yield base
    points = []
    if tier == "thorough":
        for k in range(0, max(2, n_iter)):  # k = 0: close() after the loop task was created, before its first step
            for p in (0, 1, 2, -1):
                points.append((k, p))
        if len(points) > 900:
            points = rng.sample(points, 900)
    else:
        points.append((0, rng.choice([0, 1, -1])))
        for _ in range(13):
            points.append((rng.randint(1, max(1, n_iter - 1)), rng.choice([0, 0, 1, 2, -1, -1])))
    for k, p in points:
        sc = copy.deepcopy(base)
        sc["close"] = {"iter": k, "pos": p}
        r = rng.random()
        if r < 0.15:  # the line drops in the same or a neighbouring iteration as close()
            sc["extra"] = [{"what": "lose", "iter": max(1, k + rng.choice([-2, -1, 0, 0, 0, 1])), "pos": rng.choice([0, -1])}]
        elif r < 0.25:
            sc["extra"] = [{"what": "close_again", "iter": k + rng.choice([0, 1, 2, 5]), "pos": rng.choice([0, -1])}]
        if rng.random() < 0.2:
            sc["restart"] = {"gap": rng.choice([0, 0.5, 3, 20]), "run": rng.choice([5, 30])}
        yield sc


def execute(sc):
    rig = manager_rig.ManagerRig(sc).run()
    if sc.get("close") is None:
        manager_rig.liveness_check(rig)
    viol = [v for v in rig.violations if v["sig"].startswith("C17/")]
    kinds = [e[0] for e in rig.events]
    faults = {
        "connect_fail": kinds.count("attempt_fail"),
        "loss": kinds.count("loss"),
        "loss_injected_at_iteration": kinds.count("loss_injected"),
        "close_called_again": kinds.count("close_called_again"),
        "close_at": kinds.count("close_called"),
        "restart_after_close": kinds.count("restart"),
        "wall_clock_jump": kinds.count("wall_clock_jump"),
        "attempt_cancelled_seen": kinds.count("attempt_cancelled"),
    }
    script = sc.get("script") or []
    faults["connect_slow"] = sum(1 for i in range(min(rig.attempts, len(script))) if (script[i].get("d") or 0) > 0)
    faults["connect_hang"] = sum(1 for i in range(min(rig.attempts, len(script))) if script[i]["o"] == "hang")
    probes = {}
    states = []
    nontrivial = False
    if sc.get("kind") == "soak":
        probes["soak_runs"] = 1
        if sc.get("outage"):
            probes["outage_over_1024_failures"] = 1 if rig.attempts > 1024 else 0
        probes["soak_attempts"] = rig.attempts
        nontrivial = rig.attempts > 50
    closes = [e for e in rig.events if e[0] == "close_called"]
    if closes:
        kw = dict(closes[0][3])
        probes[f"close_phase={kw['phase']}"] = 1
        for flag in filter(None, kw["same_iter"].split("+")):
            probes[f"close_same_iter={flag}"] = 1
        prefix = "".join(dict(e[3])["o"][0] for e in rig.events if e[0] == "attempt_start" and e[2] <= closes[0][2])
        states.append((kw["phase"], kw["same_iter"], prefix[:8]))
        nontrivial = kw["phase"] not in ("before_first_attempt", "loop_not_running", "before_first_step")
    elif sc.get("kind") != "soak":
        nontrivial = faults["connect_fail"] + faults["loss"] > 0
    if sc.get("default_outage") and sc.get("close") is None:
        probes["default_config_outage_reached_cap"] = 1 if rig.attempts >= 9 else 0
    probes["max_pending_tasks"] = 0  # reported through max below
    return {
        "violations": viol,
        "digest": prng.digest([rig.events, [v["sig"] for v in viol], rig.max_tasks]),
        "nontrivial": nontrivial,
        "key": prng.digest(sc),
        "faults": faults,
        "probes": probes,
        "states": states,
        "sim_s": rig.end_time,
        "summary": summarise(sc, rig),
    }


def summarise(sc, rig=None):
    out = {k: sc.get(k) for k in ("kind", "script", "tail", "cfg", "stream", "close", "extra", "jump", "restart", "horizon")}
    if rig is not None:
        out["observed"] = {
            "attempts": rig.attempts,
            "virtual_seconds": rig.end_time,
            "iterations": rig.end_iter,
            "max_pending_tasks": rig.max_tasks,
            "first_events": [[e[0], e[1], e[2]] for e in rig.events[:12]],
        }
    return out


def trace(sc):
    rig = manager_rig.ManagerRig(sc).run()
    for e in rig.events:
        yield f"t={e[1]:<10} iter={e[2]:<5} {e[0]} {dict(e[3])}"


def candidates(sc):
    def with_(**kw):
        c = copy.deepcopy(sc)
        c.update(kw)
        return c

    if sc.get("extra"):
        yield with_(extra=None)
    for key in ("restart", "jump", "stream"):
        if sc.get(key) is not None:
            yield with_(**{key: None})
    script = sc.get("script") or []
    for red in shrink.list_reductions(script):
        yield with_(script=red)
    simple_tail = {"o": "ok", "d": 0, "life": None}
    if sc.get("tail") not in (None, simple_tail):
        yield with_(tail=simple_tail)
    cfg = sc.get("cfg") or {}
    for k, v in cfg.items():
        if v is not None:
            yield with_(cfg=dict(cfg, **{k: None}))
    for i, spec in enumerate(script):
        if spec.get("y"):
            s2 = copy.deepcopy(script)
            s2[i]["y"] = 0
            yield with_(script=s2)
        if spec.get("d"):
            for d in (0, 1):
                if d < spec["d"]:
                    s2 = copy.deepcopy(script)
                    s2[i]["d"] = d
                    yield with_(script=s2)
        if spec["o"] == "ok" and spec.get("life") not in (None,):
            for life in (None, 1):
                if life != spec["life"]:
                    s2 = copy.deepcopy(script)
                    s2[i]["life"] = life
                    yield with_(script=s2)
    c = sc.get("close")
    if c:
        if c.get("pos"):
            yield with_(close={"iter": c["iter"], "pos": 0})
        for k in (c["iter"] // 2, c["iter"] - 1):
            if 1 <= k < c["iter"]:
                yield with_(close={"iter": k, "pos": c.get("pos", 0)})
    if sc.get("max_attempts") and sc["max_attempts"] > 30:
        yield with_(max_attempts=max(30, sc["max_attempts"] // 4))
    if sc.get("horizon", 0) > 40 and sc.get("kind") != "soak":
        yield with_(horizon=40.0)
