#!/bin/bash
# False-alarm soak: every quick check under several other VERIF_SEED values on the current tree.
# Evidence and replays go to a scratch directory so the committed evidence is not touched.
cd "$(dirname "$0")/.."
S=$(mktemp -d -p /dev/shm soak-XXXX); trap 'rm -rf "$S"' EXIT
bad=0
for seed in ${SEEDS:-1 2 3 7 11 42 1234 99991}; do
  for p in ${PROPS:-C01 C02 C04 C05 C06 C12 C13 C14 C15 C16 C17 C18 C19}; do
    out=$(VERIF_SEED=$seed VERIF_EVIDENCE_DIR=$S/ev VERIF_OUT_DIR=$S/out ./check $p --tier quick 2>&1); rc=$?
    line=$(echo "$out" | grep -E '^SUMMARY' | sed 's/nontrivial_distinct/nt/' | cut -c1-200)
    echo "seed=$seed $p exit=$rc $line"
    if [ $rc -ne 0 ]; then bad=$((bad+1)); echo "$out" | grep -E '^(VIOLATION|HARNESS|  signature)' | cut -c1-300; cp -r $S/out/replays /tmp/soak-replays-$seed-$p 2>/dev/null; fi
  done
done
echo "SOAK done: non-zero exits=$bad"
