"""Entry point: ./check <property|selftest|replay> ..."""
from __future__ import annotations

import argparse
import os
import sys

ROOT = os.path.dirname(os.path.dirname(os.path.abspath(__file__)))
sys.path.insert(0, ROOT)
sys.dont_write_bytecode = True


def main(argv) -> int:
    from dst.core import env, runner

    if argv and argv[0] == "replay":
        return runner.replay_file(argv[1])
    ap = argparse.ArgumentParser()
    ap.add_argument("target")
    ap.add_argument("--tier", default=os.environ.get("VERIF_TIER") or "quick", choices=["quick", "thorough"])
    ap.add_argument("--replay")
    ap.add_argument("--runs", type=int)
    ap.add_argument("--workers", type=int)
    ap.add_argument("--budget", type=float)
    args = ap.parse_args(argv)
    try:
        if args.replay:
            return runner.replay_file(args.replay)
        if args.target == "setup":
            repo = env.setup()
            import construct  # noqa: F401
            import han.autodecoder, han.dlde, han.hdlc, han.meter_connection  # noqa: F401,E401

            print(f"setup ok: han from {repo}, python {sys.version.split()[0]}")
            return 0
        if args.target == "selftest":
            from dst.core import selftest

            return selftest.main(args)
        return runner.run_property(args.target.upper(), args.tier, args.runs, args.workers, args.budget)
    except env.HarnessError as ex:
        print(f"HARNESS-ERROR {ex}")
        return 2
    except Exception:  # noqa: BLE001 - a crash of the machinery is never a verdict
        import traceback

        traceback.print_exc()
        print("HARNESS-ERROR unexpected exception in the verification machinery")
        return 2


if __name__ == "__main__":
    sys.exit(main(sys.argv[1:]))
