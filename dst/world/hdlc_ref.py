"""HDLC (ISO/IEC 13239 frame format type 3, RFC 1662 FCS-16 and octet stuffing) written from the
standards.  Trusted base of the oracles - never imports `han`."""
from __future__ import annotations

FLAG = 0x7E
ESC = 0x7D


def fcs16_bits(data: bytes) -> int:
    """Bit-serial RFC 1662 FCS-16: x^16+x^12+x^5+1 reflected (0x8408), init 0xFFFF, complemented."""
    reg = 0xFFFF
    for octet in data:
        for bit in range(8):
            inbit = (octet >> bit) & 1
            if (reg & 1) ^ inbit:
                reg = (reg >> 1) ^ 0x8408
            else:
                reg >>= 1
    return reg ^ 0xFFFF


def fcs_octets(data: bytes) -> bytes:
    v = fcs16_bits(data)
    return bytes((v & 0xFF, v >> 8))  # low octet first


def is_intact(o: bytes) -> bool:
    """The property's validity predicate: length field equals octet count and FCS matches."""
    if len(o) < 2:
        return False
    if ((o[0] << 8 | o[1]) & 0x7FF) != len(o):
        return False
    return fcs_octets(o[:-2]) == o[-2:]


def make_address(n_octets: int, value_bits: int) -> bytes:
    """n-octet extended address: LSB 0 on all but the last octet."""
    out = []
    for i in range(n_octets):
        seven = (value_bits >> (7 * (n_octets - 1 - i))) & 0x7F
        out.append((seven << 1) | (1 if i == n_octets - 1 else 0))
    return bytes(out)


def build_frame(dest: bytes, src: bytes, control: int, info: bytes, fmt_type: int = 0xA, seg: bool = False) -> bytes:
    """Frame octets without flags. With an empty info field there is no separate HCS (only FCS)."""
    head_len = 2 + len(dest) + len(src) + 1
    total = head_len + 2 + (len(info) + 2 if info else 0)
    if total > 0x7FF:
        raise ValueError("frame too long")
    fmt = (fmt_type & 0xF) << 12 | (0x800 if seg else 0) | total
    head = bytes((fmt >> 8, fmt & 0xFF)) + dest + src + bytes((control,))
    head += fcs_octets(head)
    if not info:
        return head
    body = head + info
    return body + fcs_octets(body)


class Header:
    __slots__ = ("frame_length", "fmt_type", "seg", "dest", "src", "control_pos", "control", "hcs", "info_pos")


def parse_header(o: bytes):
    """Parse header fields by the address LSB rule. None when the addresses do not terminate or the
    octets end before the HCS."""
    if len(o) < 2:
        return None
    h = Header()
    fmt = o[0] << 8 | o[1]
    h.frame_length = fmt & 0x7FF
    h.fmt_type = fmt >> 12
    h.seg = bool(fmt & 0x800)
    pos = 2
    addrs = []
    for _ in range(2):
        start = pos
        while True:
            if pos >= len(o):
                return None
            last = o[pos] & 1
            pos += 1
            if last:
                break
        addrs.append(bytes(o[start:pos]))
    h.dest, h.src = addrs
    h.control_pos = pos
    if len(o) < pos + 3:
        return None
    h.control = o[pos]
    h.hcs = bytes(o[pos + 1 : pos + 3])
    h.info_pos = pos + 3
    return h


def stuff(frame: bytes, extra=None) -> bytes:
    """Octet stuffing: 0x7E and 0x7D always; `extra` is an optional set of further octets a sender
    chooses to escape (RFC 1662 allows escaping any octet)."""
    out = bytearray()
    for b in frame:
        if b in (FLAG, ESC) or (extra and b in extra and b < 0x20):
            out.append(ESC)
            out.append(b ^ 0x20)
        else:
            out.append(b)
    return bytes(out)


def unstuff(segment: bytes) -> bytes:
    """Inverse of stuff() for a flag-free segment; a trailing lone escape octet is dropped."""
    out = bytearray()
    esc = False
    for b in segment:
        if esc:
            out.append(b ^ 0x20)
            esc = False
        elif b == ESC:
            esc = True
        else:
            out.append(b)
    return bytes(out)


def split_segments(wire: bytes):
    """Flag-delimited segments of a wire: list of (start, end) of the octets strictly between two
    consecutive flags (possibly empty)."""
    flags = [i for i, b in enumerate(wire) if b == FLAG]
    return [(a + 1, b) for a, b in zip(flags, flags[1:])]
