"""Known findings: committed file, read-only at run time."""
from __future__ import annotations

import json
import os

HERE = os.path.dirname(os.path.dirname(os.path.dirname(os.path.abspath(__file__))))
PATH = os.environ.get("VERIF_KNOWN_FINDINGS") or os.path.join(HERE, "known_findings.json")  # override only for tools/selfcheck_known_findings.sh


def load():
    if not os.path.exists(PATH):
        return {"findings": [], "fixed": []}
    with open(PATH) as f:
        data = json.load(f)
    data.setdefault("findings", [])
    data.setdefault("fixed", [])
    return data


def for_property(prop: str):
    return [f for f in load()["findings"] if f.get("property") == prop]


def matches(finding: dict, signature: str) -> bool:
    """A finding suppresses exactly the violations whose signature equals one it lists."""
    sigs = finding.get("signatures") or [finding.get("signature")]
    return signature in sigs
