"""Oracles for returned HDLC frames, stated in terms of the property - no model of the reader."""
from __future__ import annotations

from dst.world import hdlc_ref
from dst.world.hdlc_ref import FLAG


def _seq_ok(value, two: bytes) -> bool:
    """A check-sequence accessor 'returns exactly the corresponding octets': the two octets as
    bytes, or their integer value in either octet order (the property does not fix a numeric view)."""
    if isinstance(value, (bytes, bytearray)):
        return bytes(value) == two
    if isinstance(value, int):
        return value in (two[0] << 8 | two[1], two[1] << 8 | two[0])
    return False


def field_mismatches(frame, o: bytes):
    """For a frame reported valid: accessors vs the octets. Returns list of (field, got, want)."""
    h = hdlc_ref.parse_header(o)
    if h is None:
        return None  # addresses do not terminate: no "corresponding octets" to compare with
    bad = []
    hdr = frame.header
    if hdr.frame_length != h.frame_length:
        bad.append(("frame_length", hdr.frame_length, h.frame_length))
    if hdr.destination_address != h.dest:
        bad.append(("destination_address", hdr.destination_address, h.dest))
    if hdr.source_address != h.src:
        bad.append(("source_address", hdr.source_address, h.src))
    if hdr.control != h.control:
        bad.append(("control", hdr.control, h.control))
    if not _seq_ok(hdr.header_check_sequence, h.hcs):
        bad.append(("header_check_sequence", hdr.header_check_sequence, h.hcs.hex()))
    if not _seq_ok(frame.frame_check_sequence, bytes(o[-2:])):
        bad.append(("frame_check_sequence", frame.frame_check_sequence, bytes(o[-2:]).hex()))
    want = bytes(o[h.info_pos : len(o) - 2]) if len(o) - 2 > h.info_pos else b""
    got = frame.payload
    if want:
        if got != want:
            bad.append(("payload", None if got is None else got.hex()[:40], want.hex()[:40]))
    elif got not in (None, b""):
        bad.append(("payload", got.hex()[:40], "<empty>"))
    return bad


def header_mismatches(hdr, o: bytes):
    """Header accessors of a header object alone (its frame may be gone) vs the octets; None if no parseable header."""
    h = hdlc_ref.parse_header(o)
    if h is None:
        return None
    bad = []
    for name, want in (("frame_length", h.frame_length), ("destination_address", h.dest), ("source_address", h.src), ("control", h.control)):
        got = getattr(hdr, name)
        if got != want:
            bad.append((name, got, want))
    if not _seq_ok(hdr.header_check_sequence, h.hcs):
        bad.append(("header_check_sequence", hdr.header_check_sequence, h.hcs.hex()))
    return bad


def embed_unstuffed(wire: bytes, frames):
    """Stuffing off: each frame is a substring directly between two flag octets; occurrences strictly
    ordered, non-overlapping (a closing flag may be the next opening flag). Leftmost-greedy matching
    is exact. Returns index of the first frame that cannot be placed, or None."""
    pos = 0  # next frame may start at >= pos, and wire[start-1] must be a flag
    for idx, o in enumerate(frames):
        if not o:
            return idx
        start = pos
        while True:
            start = wire.find(o, start)
            if start < 0:
                return idx
            end = start + len(o)
            if start >= 1 and wire[start - 1] == FLAG and end < len(wire) and wire[end] == FLAG:
                break
            start += 1
        pos = end + 1  # the closing flag at `end` may open the next frame: next start >= end + 1
    return None


def embed_stuffed(wire: bytes, frames):
    """Stuffing on: split the wire at flags, un-stuff each segment; returned frames must be an
    order-preserving, non-repeating subsequence of the segments."""
    segs = [hdlc_ref.unstuff(wire[a:b]) for a, b in hdlc_ref.split_segments(wire)]
    j = 0
    for idx, o in enumerate(frames):
        while j < len(segs) and segs[j] != o:
            j += 1
        if j >= len(segs):
            return idx
        j += 1
    return None
