"""Deep size of an object graph: generic traversal with gc.get_referents, no attribute names, so a
refactoring of the object cannot break it.  Classes, modules, functions and code are not followed
(they are shared, not retained per instance)."""
from __future__ import annotations

import gc
import sys
import types

_SKIP = (type, types.ModuleType, types.FunctionType, types.BuiltinFunctionType, types.MethodType, types.CodeType, types.MethodDescriptorType, types.WrapperDescriptorType, types.GetSetDescriptorType, types.MemberDescriptorType, property, staticmethod, classmethod)


def deep_size(root) -> int:
    seen = set()
    stack = [root]
    total = 0
    while stack:
        obj = stack.pop()
        oid = id(obj)
        if oid in seen or isinstance(obj, _SKIP):
            continue
        seen.add(oid)
        total += sys.getsizeof(obj)
        stack.extend(gc.get_referents(obj))
    return total


def largest_attribute(root) -> str:
    """Name of the instance attribute with the largest deep size (diagnostic for the signature)."""
    best, best_size = "?", -1
    for name, value in list(getattr(root, "__dict__", {}).items()):
        try:
            size = deep_size(value)
        except Exception:  # noqa: BLE001
            continue
        if size > best_size:
            best, best_size = name, size
    return best
