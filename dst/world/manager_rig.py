"""Rig M: the real ConnectionManager (+ real protocol objects) on the virtual-time loop, with a
scripted fake connection factory and fake transports.  Used by C17 and C18.

A scenario is plain data:
  script   list of attempts: {"o": "ok"|"fail"|"hang", "d": seconds before the outcome,
                              "life": None (stays up) | seconds until the connection is lost}
  cycle    True: attempts beyond the script reuse it cyclically; False: they use `tail`
  tail     attempt spec for attempts beyond the script
  cfg      {"max_delay", "thr", "slp"}  (None = library default)
  stream   None | seconds between meter frames pushed into the protocol while a connection is up
  close    None | {"iter": k, "pos": p}        close() spliced into iteration k's ready queue at p
  jump     None | {"iter": k, "sec": s}        wall clock jumps by s seconds (C17 monitors only)
  extra    list of {"what": "lose"|"close_again", "iter": k, "pos": p}  further external events spliced like close()
  restart  None | {"gap": s, "run": s}         after the loop returned: connect_loop() again, close again
  horizon  virtual seconds to simulate when nothing ends the run earlier
"""
from __future__ import annotations

import asyncio

from dst.core.vloop import new_loop
from dst.world import clockshim, hdlc_ref

# what a connection factory can fail with: refused/unreachable/timeouts, but also programming or
# configuration errors surfacing as other exception types (serial port name, TLS, DNS ...)
EXC_TYPES = {"OSError": OSError, "ConnectionRefusedError": ConnectionRefusedError, "TimeoutError": TimeoutError, "asyncio.TimeoutError": asyncio.TimeoutError,
             "RuntimeError": RuntimeError, "ValueError": ValueError, "KeyError": KeyError, "EOFError": EOFError}
MAX_ITER_DEFAULT = 20000
TASK_SLACK = 8  # I4: pending tasks allowed beyond the harness's own


class FakeTransport(asyncio.Transport):
    def __init__(self, rig, conn_id: int) -> None:
        super().__init__()
        self.rig = rig
        self.conn_id = conn_id
        self.protocol = None
        self.close_called = False
        self.lost = False
        self.ended = False  # connection_lost delivered or scheduled
        self.returned = False  # handed out by the factory

    def get_extra_info(self, name, default=None):
        if name == "peername":
            return ("sim", 2000 + self.conn_id)
        return default

    def is_closing(self):
        return self.ended

    def close(self):
        first = not self.close_called
        self.close_called = True
        if first:
            self.rig.record("transport_close", conn=self.conn_id)
        if not self.ended:
            self.ended = True
            self.rig.live_set.discard(self.conn_id)
            self.rig.loop.call_soon(self._deliver_lost, None)

    def abort(self):
        self.close()

    def lose(self):
        """Fault: the peer/line goes away."""
        if self.ended:
            return
        self.ended = True
        self.rig.live_set.discard(self.conn_id)
        self.lost = True
        self.rig.record("loss", conn=self.conn_id)
        self.rig.last_loss_iter = self.rig.loop.iteration
        self.rig.loop.call_soon(self._deliver_lost, OSError("simulated connection loss"))

    def _deliver_lost(self, exc):
        self.rig.record("connection_lost_delivered", conn=self.conn_id)
        self.protocol.connection_lost(exc)

    @property
    def live(self) -> bool:
        return not self.ended


class ManagerRig:
    def __init__(self, scenario: dict) -> None:
        import han.meter_connection as mc
        from han.dlde import ModeDReader
        from han.hdlc import HdlcFrameReader

        self.mc = mc
        self._readers = (HdlcFrameReader, ModeDReader)
        self.sc = scenario
        self.loop = new_loop()
        self.clock = clockshim.Clock(self.loop)
        if self.sc.get("dst"):
            self.clock.dst = (float(self.sc["dst"]["at"]), float(self.sc["dst"]["sec"]))
        self._undo_clock, self.clock_names = clockshim.install(mc, self.clock)
        self.events: list = []
        self.violations: list = []
        self.transports: list[FakeTransport] = []
        self.live_set: set = set()
        self.attempts = 0
        self.in_flight = 0
        self.close_time = None
        self.close_iter = None
        self.close_count = 0
        self.close_phase = None
        self.loop_running = False
        self.loop_done_at = None
        self.loop_started_iter = None
        self.allow_attempts = True
        self.last_loss_iter = -10
        self.last_attempt_end_iter = -10
        self.max_tasks = 0
        self.harness_tasks = 0
        self.queue = None
        self.mgr = None
        self.delivered = 0
        self._frame = bytes([0x7E]) + hdlc_ref.build_frame(b"\x01", b"\x21", 0x13, bytes(range(40))) + bytes([0x7E])
        self.stop_reason = None
        self.sessions = 0
        self._auto_closed = False
        self._extra_done = set()
        self._stall_mark = None
        self._stall_iters = 0
        self.main_created = False
        self.frozen = False

    # -- recording ---------------------------------------------------------------------------
    def record(self, kind: str, **kw) -> None:
        if self.frozen:  # teardown (task cancellation in set order) is not part of the history
            return
        self.events.append((kind, round(self.loop.time(), 6), self.loop.iteration, tuple(sorted(kw.items()))))

    def violate(self, clause: str, facts: str, detail: str = "") -> None:
        sig = f"C17/{clause} {facts}" if not clause.startswith("T") else f"C18/{clause} {facts}"
        if not any(v["sig"] == sig for v in self.violations):
            self.violations.append({"sig": sig, "detail": detail, "t": self.loop.time(), "iter": self.loop.iteration})

    # -- the fake connection factory -------------------------------------------------------------
    def _spec(self, idx: int) -> dict:
        script = self.sc.get("script") or []
        if idx < len(script):
            return script[idx]
        if self.sc.get("cycle") and script:
            return script[idx % len(script)]
        return self.sc.get("tail") or {"o": "ok", "d": 0, "life": None}

    def make_factory(self):
        rig = self

        async def factory():
            idx = rig.attempts
            rig.attempts += 1
            spec = rig._spec(idx)
            live = sorted(rig.live_set)
            rig.record("attempt_start", idx=idx, o=spec["o"], inflight=rig.in_flight, live=len(live))
            if live:
                rig.violate("I2", "attempt-while-connection-live", f"attempt {idx} started while connection(s) {live} live")
            if not rig.allow_attempts:
                rig.violate(
                    "I3",
                    f"attempt-after-close phase={rig.close_phase}",
                    f"attempt {idx} started at t={rig.loop.time()} after close() at t={rig.close_time}",
                )
            rig.in_flight += 1
            try:
                d = spec.get("d") or 0
                for _ in range(spec.get("y") or 0):
                    await asyncio.sleep(0)
                if spec["o"] == "hang":
                    await rig.loop.create_future()
                if d > 0:
                    await asyncio.sleep(d)
                if spec["o"] == "fail":
                    rig.record("attempt_fail", idx=idx)
                    cls_ = EXC_TYPES.get(spec.get("exc"), OSError)
                    if spec.get("noargs"):
                        raise cls_()  # e.g. TimeoutError() from wait_for, EOFError(): exceptions carry no message
                    raise cls_(f"simulated connect failure #{idx}")
                transport = FakeTransport(rig, len(rig.transports))
                rig.transports.append(transport)
                rig.live_set.add(transport.conn_id)
                cls = rig.mc.SmartMeterMessagePayloadProtocol
                hdlc, p1 = rig._readers
                protocol = cls(rig.queue, [hdlc(False, True), p1()])
                transport.protocol = protocol
                protocol.connection_made(transport)
                life = spec.get("life")
                if life is not None:
                    if life <= 0:
                        rig.loop.call_soon(transport.lose)
                    else:
                        rig.loop.call_later(life, transport.lose)
                if rig.sc.get("stream"):
                    rig.loop.call_later(rig.sc["stream"], rig._stream, transport)
                transport.returned = True
                rig.record("attempt_ok", idx=idx, conn=transport.conn_id)
                return transport, protocol
            except asyncio.CancelledError:
                rig.record("attempt_cancelled", idx=idx)
                raise
            finally:
                rig.in_flight -= 1
                rig.last_attempt_end_iter = rig.loop.iteration

        return factory

    def _stream(self, transport: FakeTransport) -> None:
        if transport.ended:
            return
        transport.protocol.data_received(self._frame)
        self.loop.call_later(self.sc["stream"], self._stream, transport)

    # -- phases, monitors --------------------------------------------------------------------------
    def phase(self) -> str:
        if not self.loop_running:
            return "before_first_step" if self.main_created and self.sessions == 0 else "loop_not_running"
        if any(self.transports[c].returned for c in self.live_set):
            return "connected"
        if self.in_flight:
            return "pending_attempt"
        if self.attempts == 0:
            return "before_first_attempt"
        return "backoff_sleep"

    def _monitor(self, loop) -> None:
        # livelock: the loop keeps iterating at one virtual instant without any observable event
        mark = (len(self.events), loop.time())
        if mark == self._stall_mark:
            self._stall_iters += 1
            if self._stall_iters == 3000 and self.loop_running and self.close_time is None:
                self.violate("H3", "event-loop-spins-without-progress", f"3000 loop iterations at t={loop.time()} without a connection attempt, timer or any other event after {self.attempts} attempts: the manager is busy-looping instead of reconnecting")
        else:
            self._stall_mark = mark
            self._stall_iters = 0
        live = len(self.live_set)
        if live > 1:
            self.violate("I1", "two-live-connections", f"{live} live connections at t={loop.time()}")
        ntasks = len(asyncio.all_tasks(loop))
        if ntasks > self.max_tasks:
            self.max_tasks = ntasks
        if ntasks > self.harness_tasks + TASK_SLACK:
            self.violate(
                "I4",
                "task-growth",
                f"{ntasks} pending tasks at iteration {loop.iteration} after {self.attempts} attempts",
            )

    def _inject(self, loop) -> None:
        c = self.sc.get("close")
        if c is not None and not self._auto_closed and loop.iteration >= c["iter"] and (self.loop_running or self.main_created):
            self._auto_closed = True
            self._splice_close(c.get("pos", 0))
        for n, e in enumerate(self.sc.get("extra") or ()):
            if n not in self._extra_done and loop.iteration >= e["iter"]:
                self._extra_done.add(n)
                where = loop.ready_len if e.get("pos", 0) == -1 else e.get("pos", 0)
                if e["what"] == "lose":
                    loop.splice(where, self._do_lose)
                elif e["what"] == "close_again" and self.close_time is not None:
                    loop.splice(where, self._do_close_again)
        j = self.sc.get("jump")
        if j is not None and not getattr(self, "_jumped", False) and loop.iteration >= j["iter"]:
            self._jumped = True
            self.clock.offset += j["sec"]
            self.record("wall_clock_jump", sec=j["sec"])

    def _do_lose(self) -> None:
        """External fault: the line of the currently established connection goes away now."""
        live = [self.transports[c] for c in sorted(self.live_set) if self.transports[c].returned]
        if live:
            self.record("loss_injected", conn=live[0].conn_id)
            live[0].lose()
        else:
            self.record("loss_injection_noop")

    def _do_close_again(self) -> None:
        self.record("close_called_again")
        try:
            self.mgr.close()
        except Exception as ex:  # noqa: BLE001 - H4
            self.violate("H4", f"second-close-raised {type(ex).__name__}", repr(ex))

    def _splice_close(self, pos) -> None:
        n = self.loop.ready_len
        where = n if pos == -1 else pos
        self.close_count += 1
        self.loop.splice(where, self._do_close)

    def _do_close(self) -> None:
        same_iter = []
        if self.last_attempt_end_iter == self.loop.iteration:
            same_iter.append("attempt_end")
        if self.last_loss_iter == self.loop.iteration:
            same_iter.append("loss")
        self.close_phase = self.phase()
        self.close_time = self.loop.time()
        self.close_iter = self.loop.iteration
        self.record("close_called", phase=self.close_phase, same_iter="+".join(same_iter))
        self.allow_attempts = False
        try:
            self.mgr.close()
        except Exception as ex:  # noqa: BLE001 - H4
            self.violate("H4", f"close-raised {type(ex).__name__}", repr(ex))

    async def _main(self) -> None:
        self.loop_running = True
        self.sessions += 1
        self.loop_started_iter = self.loop.iteration
        self.record("loop_start")
        try:
            await self.mgr.connect_loop()
        except asyncio.CancelledError:
            self.record("loop_cancelled")
            raise
        except Exception as ex:  # noqa: BLE001 - H4
            self.violate("H4", f"connect_loop-raised {type(ex).__name__}", repr(ex))
        finally:
            self.loop_running = False
            self.loop_done_at = (self.loop.time(), self.loop.iteration)
            self.record("loop_done")

    def _stop(self) -> bool:
        return bool(self.violations) and self.sc.get("stop_on_violation", True)

    async def _consume(self) -> None:
        while True:
            await self.queue.get()
            self.delivered += 1

    # -- running -----------------------------------------------------------------------------------
    def run(self) -> "ManagerRig":
        sc = self.sc
        loop = self.loop
        asyncio.events._set_running_loop(loop)
        try:
            self.queue = asyncio.Queue()
            self.mgr = self.mc.ConnectionManager(self.make_factory())
        finally:
            asyncio.events._set_running_loop(None)
        cfg = sc.get("cfg") or {}
        if cfg.get("max_delay") is not None:
            self.mgr.back_off_connect_error.max_delay = cfg["max_delay"]
        if cfg.get("thr") is not None:
            self.mgr.connection_lost_back_off_threshold = cfg["thr"]
        if cfg.get("slp") is not None:
            self.mgr.connection_lost_back_off_sleep_sec = cfg["slp"]
        loop.inject_hook = self._inject
        loop.monitor_hook = self._monitor
        self.harness_tasks = 2
        consumer = loop.create_task(self._consume())
        main = loop.create_task(self._main())
        self.main_created = True
        max_iter = sc.get("max_iter", MAX_ITER_DEFAULT)
        horizon = sc.get("horizon", 300.0)
        stop_on_violation = self._stop

        if sc.get("close") is None:
            cap = sc.get("max_attempts")
            self.stop_reason = loop.drive(
                max_iter,
                until=lambda: main.done() or stop_on_violation() or (cap is not None and self.attempts >= cap),
                horizon=horizon,
            )
        else:
            self.stop_reason = loop.drive(max_iter, until=lambda: self.close_count > 0 and self.close_time is not None or stop_on_violation(), horizon=horizon)
            if self.close_time is not None:
                self._after_close(main, max_iter)
                rs = sc.get("restart")
                if rs and main.done() and not self.violations:
                    self._restart(rs, max_iter)
        self.end_time = loop.time()
        self.end_iter = loop.iteration
        self.pending_after = len(asyncio.all_tasks(loop))
        self.frozen = True
        consumer.cancel()
        self._undo_clock()
        loop.shutdown()
        return self

    def _after_close(self, main, max_iter) -> None:
        loop = self.loop
        t_close, i_close = self.close_time, self.close_iter
        # H1: the loop returns at the virtual instant of close(), within a few iterations
        loop.drive(60, until=lambda: main.done())
        if not main.done():
            self.violate(
                "H1",
                f"loop-not-returned phase={self.close_phase}",
                f"connect_loop() still running 60 iterations after close() (t_close={t_close}, now={loop.time()})",
            )
        elif self.loop_done_at[0] > t_close + 1e-9:
            self.violate(
                "H1",
                f"loop-returned-late phase={self.close_phase}",
                f"connect_loop() returned {self.loop_done_at[0] - t_close} virtual s after close()",
            )
        # drive past every outstanding timer: everything the manager left behind plays out
        self.stop_reason = loop.drive(max_iter, until=self._stop, horizon=t_close + 1000.0)
        self._check_transports_closed()

    def _check_transports_closed(self) -> None:
        for t in self.transports:
            if t.live:
                self.violate(
                    "H2",
                    f"transport-not-closed phase={self.close_phase}",
                    f"transport {t.conn_id} obtained by the manager is still open at quiescence after close()",
                )

    def _restart(self, rs, max_iter) -> None:
        """A later connect_loop() call on the same manager must work like a fresh one."""
        loop = self.loop
        t0 = loop.time()
        loop.call_later(rs["gap"], lambda: None)
        loop.drive(max_iter, until=lambda: loop.time() >= t0 + rs["gap"], horizon=t0 + rs["gap"] + 1)
        self.allow_attempts = True
        self.close_time = None
        self.close_count = 0
        attempts_before = self.attempts
        self.record("restart")
        main2 = loop.create_task(self._main())
        t1 = loop.time()
        loop.call_later(rs["run"], lambda: None)
        loop.drive(max_iter, until=lambda: loop.time() >= t1 + rs["run"] or main2.done() or bool(self.violations))
        if self.violations:
            return
        # Liveness of a restarted loop is not part of the property's statement: recorded, not judged.
        if main2.done():
            self.record("restart_loop_returned_by_itself")
            return
        if self.attempts == attempts_before:
            self.record("restart_no_attempt_yet")
        self._splice_close(0)
        loop.drive(5, until=lambda: self.close_time is not None)
        if self.close_time is not None:
            self._after_close(main2, max_iter)


def liveness_check(rig: ManagerRig, bound_extra: float = 0.1) -> None:
    """H3: after every failure and every loss the next attempt starts within max(max_delay, sleep)."""
    cfg = rig.sc.get("cfg") or {}
    max_delay = cfg.get("max_delay") if cfg.get("max_delay") is not None else 60
    slp = cfg.get("slp") if cfg.get("slp") is not None else 5
    bound = max(max_delay, slp) + bound_extra
    limit = rig.end_time
    for e in rig.events:
        if e[0] == "close_called":
            limit = min(limit, e[1])
            break
    starts = [e[1] for e in rig.events if e[0] == "attempt_start"]
    seq = [(i, e) for i, e in enumerate(rig.events)]
    for i, e in seq:
        if e[0] not in ("attempt_fail", "loss"):
            continue
        t = e[1]
        nxt = None
        for f in rig.events[i + 1 :]:
            if f[0] == "attempt_start":
                nxt = f[1]
                break
        if nxt is None:
            if t + bound <= limit - 1e-9:
                rig.violate("H3", f"no-reconnect-after-{e[0]}", f"{e[0]} at t={t}: no attempt by t={limit} (bound {bound})")
        elif nxt - t > bound + 1e-9 and nxt <= limit:
            rig.violate("H3", f"late-reconnect-after-{e[0]}", f"{e[0]} at t={t}: next attempt at t={nxt} (bound {bound})")
    del starts
