"""Seeded batch runner: fan runs out over forked workers, merge in index order, minimise and
replay violations, match known findings, write evidence, decide the exit code."""
from __future__ import annotations

import collections
import concurrent.futures as cf
import faulthandler
import hashlib
import importlib
import json
import multiprocessing
import os
import re
import subprocess
import sys
import shutil
import tempfile
import time

from dst.core import env, findings, prng, shrink

ROOT = os.path.dirname(os.path.dirname(os.path.dirname(os.path.abspath(__file__))))
OUT = os.environ.get("VERIF_OUT_DIR") or os.path.join(ROOT, "out")
EVIDENCE = os.environ.get("VERIF_EVIDENCE_DIR") or os.path.join(ROOT, "evidence")
MAX_SIGS_MINIMISED = 6
WORKER_WATCHDOG_S = 600
WATCHDOG = {"quick": 90, "thorough": 600}  # wall-clock backstop per evaluation (hangs inside C code)
PROBE_TIMEOUT = {"quick": 45, "thorough": 240}
VIOLATION_STOP = 60
_INFLIGHT_FD = None


def _inflight_dir():
    return os.path.join(OUT, "inflight")


def _mark_inflight(index: int, k: int) -> None:
    """Cheap crash breadcrumb: which (run index, evaluation ordinal) this worker is executing."""
    global _INFLIGHT_FD
    if _INFLIGHT_FD is None or _INFLIGHT_FD[0] != os.getpid():
        os.makedirs(_inflight_dir(), exist_ok=True)
        fd = os.open(os.path.join(_inflight_dir(), f"{os.getpid()}.txt"), os.O_CREAT | os.O_WRONLY | os.O_TRUNC, 0o644)
        _INFLIGHT_FD = (os.getpid(), fd)
    os.pwrite(_INFLIGHT_FD[1], b"%012d %06d\n" % (index, k), 0)


def load_check(prop: str):
    mod = importlib.import_module(f"dst.checks.{prop.lower()}")
    if not getattr(mod, "_fresh_state_wrapped", False):
        inner = mod.execute

        def execute(sc):
            """One run = one process lifetime: whatever an earlier run of this worker left behind in module-level or
            class-level state of the library is put back before the run (a run must not depend on which runs its worker
            happened to execute before); a run that leaves such state changed is counted."""
            from dst.world import pristine

            pristine.ensure()
            if pristine.changed():
                pristine.reset()
            res = inner(sc)
            if pristine.changed():
                res.setdefault("probes", {})["runs_that_left_process_wide_state_changed"] = 1
            return res

        mod.execute = execute
        mod._fresh_state_wrapped = True
    return mod


# ---------------------------------------------------------------------------------------------
# worker side


def _key64(key) -> int:
    return int.from_bytes(hashlib.sha256(repr(key).encode()).digest()[:8], "big")


def work(prop: str, tier: str, seed: int, lo: int, hi: int, stream: str = "") -> dict:
    env.setup()
    mod = load_check(prop)
    t0 = time.monotonic()
    out = {
        "lo": lo,
        "hi": hi,
        "evals": 0,
        "nontrivial": set(),
        "faults": collections.Counter(),
        "probes": collections.Counter(),
        "states": set(),
        "sim_s": 0.0,
        "viol": {},
        "viol_count": 0,
        "samples": [],
        "void": 0,
    }
    chain = hashlib.sha256()
    try:
        for index in range(lo, hi):
            rng = prng.rng_for(seed, mod.PROP, tier, index, stream)
            for k, sc in enumerate(mod.gen(rng, tier, index)):
                # wall-clock backstop per evaluation (hangs inside C code); re-armed for every evaluation
                faulthandler.dump_traceback_later(WATCHDOG.get(tier, WORKER_WATCHDOG_S), exit=True)
                _mark_inflight(index, k)
                res = mod.execute(sc)
                out["evals"] += 1
                chain.update(res.get("digest", "").encode())
                if res.get("nontrivial"):
                    out["nontrivial"].add(_key64(res.get("key", res.get("digest"))))
                for k, v in (res.get("faults") or {}).items():
                    out["faults"][k] += v
                for k, v in (res.get("probes") or {}).items():
                    out["probes"][k] += v
                for s in res.get("states") or ():
                    out["states"].add(s)
                out["sim_s"] += res.get("sim_s", 0.0)
                if res.get("void"):
                    out["void"] += 1
                if not out["samples"] and res.get("nontrivial"):
                    out["samples"].append(res.get("summary") or mod.summarise(sc))
                for v in res.get("violations") or ():
                    out["viol_count"] += 1
                    if v["sig"] not in out["viol"]:
                        out["viol"][v["sig"]] = {"sig": v["sig"], "detail": v.get("detail", ""), "index": index, "scenario": sc}
    finally:
        faulthandler.cancel_dump_traceback_later()
        _mark_inflight(-1, 0)
    out["digest"] = chain.hexdigest()
    out["wall"] = time.monotonic() - t0
    return out


# ---------------------------------------------------------------------------------------------
# parent side


def _slug(text: str) -> str:
    return re.sub(r"[^A-Za-z0-9_.=-]+", "_", text).strip("_")[:90]


def batch(prop: str, tier: str, seed: int, runs: int, chunk: int, workers: int, budget_s: float | None, stream: str = ""):
    """Run indices [0, runs) in chunks; returns (merged results, info)."""
    chunks = [(lo, min(lo + chunk, runs)) for lo in range(0, runs, chunk)]
    results = {}
    if os.path.isdir(_inflight_dir()):
        for name in os.listdir(_inflight_dir()):
            try:
                os.unlink(os.path.join(_inflight_dir(), name))
            except OSError:
                pass
    t0 = time.monotonic()
    budget_hit = False
    if workers <= 1:
        for lo, hi in chunks:
            if budget_s is not None and time.monotonic() - t0 > budget_s:
                budget_hit = True
                break
            results[lo] = work(prop, tier, seed, lo, hi, stream)
    else:
        ctx = multiprocessing.get_context("fork")
        with cf.ProcessPoolExecutor(max_workers=workers, mp_context=ctx) as ex:
            pending = collections.deque(chunks)
            running = {}
            try:
                while pending or running:
                    while pending and len(running) < workers * 2:
                        if budget_s is not None and time.monotonic() - t0 > budget_s:
                            budget_hit = True
                            pending.clear()
                            break
                        lo, hi = pending.popleft()
                        running[ex.submit(work, prop, tier, seed, lo, hi, stream)] = lo
                    if not running:
                        break
                    done, _ = cf.wait(list(running), timeout=6 * WORKER_WATCHDOG_S, return_when=cf.FIRST_COMPLETED)
                    if not done:
                        raise env.HarnessError("no worker finished within the watchdog period")
                    for fut in done:
                        lo = running.pop(fut)
                        results[lo] = fut.result()
                    if sum(r["viol_count"] for r in results.values()) >= VIOLATION_STOP and pending:
                        # plenty of violations already: the verdict cannot change, stop early
                        budget_hit = True
                        pending.clear()
            except cf.process.BrokenProcessPool as ex_:
                hangs = probe_inflight(prop, tier, seed, stream)
                if not hangs:
                    raise env.HarnessError(f"worker died and no in-flight evaluation reproduces a hang: {ex_}") from ex_
                budget_hit = True
                results[-1] = {"lo": 0, "hi": 0, "evals": len(hangs), "nontrivial": set(), "faults": collections.Counter(), "probes": collections.Counter({"worker_killed_by_watchdog": 1}),
                               "states": set(), "sim_s": 0.0, "viol": {h["sig"]: h for h in hangs}, "viol_count": len(hangs), "samples": [], "void": 0, "digest": "hang"}
    merged = {
        "evals": 0,
        "runs": 0,
        "nontrivial": set(),
        "faults": collections.Counter(),
        "probes": collections.Counter(),
        "states": set(),
        "sim_s": 0.0,
        "viol": {},
        "viol_count": 0,
        "samples": [],
        "void": 0,
    }
    chain = hashlib.sha256()
    for lo in sorted(results):
        r = results[lo]
        merged["evals"] += r["evals"]
        merged["runs"] += r["hi"] - r["lo"]
        merged["nontrivial"] |= r["nontrivial"]
        merged["faults"].update(r["faults"])
        merged["probes"].update(r["probes"])
        merged["states"] |= r["states"]
        merged["sim_s"] += r["sim_s"]
        merged["viol_count"] += r["viol_count"]
        merged["void"] += r["void"]
        for sig, v in r["viol"].items():
            if sig not in merged["viol"]:
                merged["viol"][sig] = v
        if len(merged["samples"]) < 3:
            merged["samples"].extend(r["samples"][: 3 - len(merged["samples"])])
        chain.update(r["digest"].encode())
    merged["digest"] = chain.hexdigest()
    info = {"wall": time.monotonic() - t0, "budget_hit": budget_hit, "chunks_done": len(results), "chunks": len(chunks)}
    return merged, info


def probe_inflight(prop, tier, seed, stream=""):
    """A worker was killed by its wall-clock watchdog. Re-create the evaluations that were in flight and
    run each in a sacrificial interpreter with a time limit; the ones that do not finish are reported as
    non-termination (a violation where termination is part of the property, C14/C15), with the scenario
    as replay file."""
    mod = load_check(prop)
    found = []
    d = _inflight_dir()
    marks = set()
    for name in sorted(os.listdir(d)) if os.path.isdir(d) else ():
        try:
            with open(os.path.join(d, name)) as f:
                index, k = (int(x) for x in f.read().split()[:2])
            if index >= 0:
                marks.add((index, k))
        except (OSError, ValueError):
            continue
    os.makedirs(os.path.join(OUT, "probe"), exist_ok=True)
    jobs = []
    for index, k in sorted(marks):
        rng = prng.rng_for(seed, mod.PROP, tier, index, stream)
        sc = None
        try:
            for n, cand in enumerate(mod.gen(rng, tier, index)):
                if n == k:
                    sc = cand
                    break
        except Exception:  # noqa: BLE001
            continue
        if sc is None:
            continue
        path = os.path.join(OUT, "probe", f"{prop}-{index}-{k}.json")
        with open(path, "w") as f:
            json.dump({"property": prop, "signature": f"{prop}/T wall-clock-hang", "scenario": sc, "interpreter_flags": interp_flags()}, f, default=prng._default)
        cmd = [sys.executable, *interp_flags(), "-B", os.path.join(ROOT, "dst", "main.py"), "replay", path]
        jobs.append((index, k, sc, subprocess.Popen(cmd, stdout=subprocess.DEVNULL, stderr=subprocess.DEVNULL, env=dict(os.environ, VERIF_NO_HANG_GUARD="1"))))
    limit = PROBE_TIMEOUT.get(tier, 120)
    deadline = time.monotonic() + limit
    for index, k, sc, proc in jobs:  # all probes run concurrently; each gets the full time limit
        try:
            proc.wait(timeout=max(0.1, deadline - time.monotonic()))
        except subprocess.TimeoutExpired:
            proc.kill()
            proc.wait()
            if getattr(mod, "TERMINATION_IS_PROPERTY", False) and not found:  # one replay is enough for the verdict
                found.append({"sig": f"{prop}/T wall-clock-hang", "detail": f"evaluation (run {index}, #{k}) did not finish within {limit} s of wall-clock time in a fresh interpreter (hang outside the interpreter's step accounting, e.g. inside a regular expression); summary: {str(mod.summarise(sc))[:200]}", "index": index, "scenario": sc})
    for name in os.listdir(d) if os.path.isdir(d) else ():
        try:
            os.unlink(os.path.join(d, name))
        except OSError:
            pass
    return found


def execute_sigs(mod, scenario):
    res = mod.execute(scenario)
    return [v["sig"] for v in res.get("violations") or ()], res


def minimise_violation(mod, v, budget_s=30.0):
    sig = v["sig"]

    def fails(cand):
        sigs, _ = execute_sigs(mod, cand)
        return sig in sigs

    cands = getattr(mod, "candidates", None)
    if cands is None:
        return v["scenario"], 0
    return shrink.minimise(v["scenario"], cands, fails, budget_s=budget_s)


def interp_flags():
    """Interpreter configuration of this pass (part of a scenario's world: see run_property, 'optimised interpreter')."""
    return ["-O"] if sys.flags.optimize else []


def write_replay(prop, seed, tier, v, minimised, used) -> str:
    d = os.path.join(OUT, "replays", prop)
    os.makedirs(d, exist_ok=True)
    trace = None
    try:
        tr = getattr(load_check(prop), "trace", None)
        if tr is not None and not v["sig"].endswith("wall-clock-hang"):
            trace = list(tr(minimised))[:400]  # readable event trace of the minimised scenario
    except Exception:  # noqa: BLE001 - the trace is a convenience, never a reason to lose the replay
        trace = None
    flags = interp_flags()
    path = os.path.join(d, f"{_slug(v['sig'])}-{seed}-{v['index']}{'-O' if flags else ''}.json")
    with open(path, "w") as f:
        json.dump(
            {
                "interpreter_flags": flags,
                "property": prop,
                "signature": v["sig"],
                "detail": v.get("detail", ""),
                "seed": seed,
                "tier": tier,
                "run_index": v["index"],
                "minimise_executions": used,
                "scenario": minimised,
                "trace": trace,
                "original_scenario": v["scenario"],
            },
            f,
            indent=1,
            sort_keys=True,
            default=prng._default,
        )
    return path


def replay_file(path: str) -> int:
    """Re-execute a replay file in this (fresh) process. Exit 1 iff the signature reproduces."""
    env.setup()
    with open(path) as f:
        data = json.load(f)
    want = data.get("interpreter_flags") or []
    if want != interp_flags():
        # the violation was found under another interpreter configuration: replay it under that one
        # (exec, not a child process: whoever started this replay must be able to kill it - a hang probe does)
        cmd = [sys.executable, *want, "-B", os.path.join(ROOT, "dst", "main.py"), "replay", path]
        envv = dict(os.environ)
        envv.pop("PYTHONOPTIMIZE", None)
        if want:
            envv["PYTHONOPTIMIZE"] = "1"
        sys.stdout.flush()
        os.execve(sys.executable, cmd, envv)
    mod = load_check(data["property"])
    if data["signature"].endswith("wall-clock-hang") and not os.environ.get("VERIF_NO_HANG_GUARD"):
        limit = int(os.environ.get("VERIF_REPLAY_TIMEOUT", "60"))
        cmd = [sys.executable, *interp_flags(), "-B", os.path.join(ROOT, "dst", "main.py"), "replay", path]
        try:
            p = subprocess.run(cmd, capture_output=True, text=True, timeout=limit, env=dict(os.environ, VERIF_NO_HANG_GUARD="1"))
            print(f"REPLAY property={data['property']} signature={data['signature']!r} reproduced=no (finished in time) deterministic=yes")
            return 0
        except subprocess.TimeoutExpired:
            print(f"REPLAY property={data['property']} signature={data['signature']!r} reproduced=yes (no result within {limit} s) deterministic=yes")
            return 1
    sigs, res = execute_sigs(mod, data["scenario"])
    sigs2, res2 = execute_sigs(mod, data["scenario"])
    same = res.get("digest") == res2.get("digest")
    hit = data["signature"] in sigs
    print(f"REPLAY property={data['property']} signature={data['signature']!r} reproduced={'yes' if hit else 'no'} "
          f"digest={res.get('digest')} deterministic={'yes' if same else 'NO'}")
    for v in res.get("violations") or ():
        print(f"  violation: {v['sig']} :: {v.get('detail', '')}")
    trace = getattr(mod, "trace", None)
    if trace is not None and os.environ.get("VERIF_TRACE"):
        for line in trace(data["scenario"]):
            print("   ", line)
    if not same:
        return 2
    return 1 if hit else 0


def replay_in_fresh_process(path: str):
    """(reproduced?, deterministic?) judged by a fresh interpreter."""
    cmd = [sys.executable, *interp_flags(), "-B", os.path.join(ROOT, "dst", "main.py"), "replay", path]
    envv = dict(os.environ)
    envv["PYTHONHASHSEED"] = "1"  # a different hash seed than the batch: replay must not depend on it
    try:
        p = subprocess.run(cmd, capture_output=True, text=True, timeout=300, env=envv)
    except subprocess.TimeoutExpired:
        return False, False, "timeout"
    if "wall-clock-hang" in p.stdout and p.returncode == 1:
        return True, True, p.stdout.strip().splitlines()[0]
    return p.returncode == 1, p.returncode in (0, 1), p.stdout.strip().splitlines()[0] if p.stdout.strip() else p.stderr[-300:]


def write_evidence(prop: str, payload: dict) -> str:
    os.makedirs(EVIDENCE, exist_ok=True)
    path = os.path.join(EVIDENCE, f"{prop}.json")
    cov = payload["coverage"]
    assert payload["tier"] in ("quick", "thorough")
    assert isinstance(payload["seed"], int)
    assert isinstance(cov["evaluations"], int) and cov["evaluations"] >= 1
    assert isinstance(cov["distinct_nontrivial"], int)
    assert isinstance(cov["samples"], list) and cov["samples"]
    tmp = path + ".tmp"
    with open(tmp, "w") as f:
        json.dump(payload, f, indent=1, sort_keys=True, default=prng._default)
    os.replace(tmp, path)
    return path


def run_property(prop: str, tier: str, runs_override=None, workers=None, budget_override=None) -> int:
    t_start = time.monotonic()
    repo = env.setup()
    mod = load_check(prop)
    seed = prng.verif_seed()
    print(f"VERIF_SEED={seed} property={prop} tier={tier} repo={repo}")
    workers = workers or int(os.environ.get("VERIF_WORKERS", "0")) or min(16, os.cpu_count() or 1)
    runs = runs_override or mod.RUNS[tier]
    chunk = max(1, min(mod.CHUNK.get(tier, 50), (runs + workers - 1) // workers))
    budget = budget_override or float(os.environ.get("VERIF_BUDGET_S", "0")) or mod.BUDGET_S.get(tier)

    # determinism sample: the first chunk twice in-process must give the same digest
    a = work(prop, tier, seed, 0, min(chunk, 8, runs))
    b = work(prop, tier, seed, 0, min(chunk, 8, runs))
    if a["digest"] != b["digest"]:
        print(f"HARNESS-ERROR property={prop} nondeterministic run digest ({a['digest'][:12]} vs {b['digest'][:12]})")
        return 2

    merged, info = batch(prop, tier, seed, runs, chunk, workers, budget)
    supplements = []
    for name, fn in getattr(mod, "supplements", lambda t: [])(tier) if not sys.flags.optimize else ():
        s0 = time.monotonic()
        sres = fn()
        sres["name"] = name
        sres["wall_s"] = round(time.monotonic() - s0, 2)
        supplements.append({k: v for k, v in sres.items() if k != "viol"})
        for v in sres.get("viol") or ():
            merged["viol_count"] += 1
            merged["viol"].setdefault(v["sig"], v)

    # -- violations: minimise, replay in a fresh process, match known findings ---------------
    known = findings.for_property(prop)
    reported = []
    harness_problem = False
    for n, (sig, v) in enumerate(sorted(merged["viol"].items(), key=lambda kv: kv[1]["index"])):
        listed = next((k for k in known if findings.matches(k, sig)), None)
        if listed is not None:
            v["known"] = listed
            continue
        if n < MAX_SIGS_MINIMISED and not sig.endswith("wall-clock-hang"):
            minimised, used = minimise_violation(mod, v)
        else:
            minimised, used = v["scenario"], 0
        path = write_replay(prop, seed, tier, v, minimised, used)
        ok, det, line = replay_in_fresh_process(path)
        if not ok:
            # fall back to the unminimised scenario before declaring a harness problem
            path = write_replay(prop, seed, tier, v, v["scenario"], 0)
            ok, det, line = replay_in_fresh_process(path)
        if not ok:
            print(f"HARNESS-ERROR property={prop} violation {sig!r} did not reproduce from its replay file {path}: {line}")
            harness_problem = True
            continue
        reported.append((sig, path, v.get("detail", "")))

    known_lines = []
    for k in known:
        rp = os.path.join(ROOT, k["replay"]) if k.get("replay") else None
        status = "replay-missing"
        if rp and os.path.exists(rp):
            with open(rp) as f:
                data = json.load(f)
            sigs, _ = execute_sigs(mod, data["scenario"])
            status = "reproduces" if any(findings.matches(k, s) for s in sigs) else "no-longer-reproduces"
        seen = sum(1 for v in merged["viol"].values() if v.get("known") is k)
        known_lines.append(f"KNOWN-FINDING: property={prop} {k['what']} [signature={k.get('signature') or k.get('signatures')}; committed replay {status}; met by {seen} signature(s) this run]")

    # -- optimised interpreter: the same check, fewer runs, under `python -O` (asserts and `if __debug__` compiled away).
    # What a library does must not depend on that switch; a side effect or a guard written as an assert is a classic slip.
    opt_pass = None
    if not sys.flags.optimize and not os.environ.get("VERIF_NO_OPT_PASS"):
        n_opt = max(chunk, runs // 8)
        b_opt = max(10.0, (budget or 60.0) / 6)
        tmp_ev = tempfile.mkdtemp(prefix="verif-ev-O-")
        cmd = [sys.executable, "-O", "-B", os.path.join(ROOT, "dst", "main.py"), prop, "--tier", tier, "--runs", str(n_opt), "--budget", str(b_opt), "--workers", str(workers)]
        t_o = time.monotonic()
        try:
            p = subprocess.run(cmd, capture_output=True, text=True, timeout=b_opt * 4 + 600, env=dict(os.environ, VERIF_SEED=str(seed + 7919), VERIF_EVIDENCE_DIR=tmp_ev, PYTHONOPTIMIZE="1"))
            o_rc, o_out = p.returncode, p.stdout
            if o_rc not in (0, 1):
                o_out += p.stderr[-800:]
        except subprocess.TimeoutExpired:
            o_rc, o_out = 2, "timeout"
        shutil.rmtree(tmp_ev, ignore_errors=True)
        o_lines = o_out.splitlines()
        o_summary = next((l for l in o_lines if l.startswith("SUMMARY")), "")
        opt_pass = {"flags": ["-O"], "exit": o_rc, "runs_requested": n_opt, "seed": seed + 7919, "wall_s": round(time.monotonic() - t_o, 2), "summary": o_summary[:300], "violations": sum(1 for l in o_lines if l.startswith("VIOLATION"))}
        if o_rc == 1:
            for i, l in enumerate(o_lines):
                if l.startswith("VIOLATION"):
                    sig_line = o_lines[i - 1] if i and o_lines[i - 1].lstrip().startswith("signature:") else "  signature: ?"
                    reported.append((sig_line.split("signature:", 1)[1].split(" :: ")[0].strip() + " [python -O]", l.split("replay=", 1)[1].strip(), sig_line.split(" :: ", 1)[1] if " :: " in sig_line else ""))
        elif o_rc != 0:
            print(f"HARNESS-ERROR property={prop} the pass under python -O ended with exit {o_rc}: {o_out[-400:]}")
            harness_problem = True

    wall = time.monotonic() - t_start
    rate = merged["evals"] / info["wall"] if info["wall"] > 0 else 0.0
    coverage = {
        "evaluations": merged["evals"],
        "distinct_nontrivial": len(merged["nontrivial"]),
        "rule": mod.RULE,
        "samples": merged["samples"][:3] or [{"note": "no non-trivial sample captured"}],
        "exhaustive": False,
        "runs": merged["runs"],
        "runs_per_hour": int(rate * 3600),
        "seeds_per_hour": int((merged["runs"] / info["wall"]) * 3600) if info["wall"] > 0 else 0,
        "simulated_seconds": round(merged["sim_s"], 3),
        "faults_fired": dict(sorted(merged["faults"].items())),
        "probes": dict(sorted(merged["probes"].items())),
        "distinct_states": len(merged["states"]),
        "distinct_states_measure": getattr(mod, "STATE_MEASURE", "n/a"),
        "void_runs": merged["void"],
        "batch_digest": merged["digest"],
        "determinism_selftest": "first chunk executed twice in-process: digests equal",
        "workers": workers,
        "budget_hit": info["budget_hit"],
        "components_real": mod.REAL,
        "components_stub": mod.STUB,
        "supplements": supplements,
        "optimised_interpreter_pass": opt_pass,
        "violating_evaluations": merged["viol_count"],
        "violation_signatures": sorted(merged["viol"]),
        "known_findings_reported": known_lines,
        "tree": repo,
    }
    payload = {
        "property_id": prop,
        "tier": tier,
        "seed": seed,
        "level": mod.LEVEL,
        "coverage": coverage,
        "assumptions": mod.ASSUMPTIONS,
        "wall_s": round(wall, 3),
        "violations": len(reported),
    }
    write_evidence(prop, payload)

    for line in known_lines:
        print(line)
    zero = [k for k in getattr(mod, "MUST_FIRE", {}).get(tier, ()) if not (merged["probes"].get(k) or merged["faults"].get(k))]
    print(
        f"SUMMARY property={prop} tier={tier} runs={merged['runs']} evaluations={merged['evals']} "
        f"nontrivial_distinct={len(merged['nontrivial'])} states={len(merged['states'])} sim_s={merged['sim_s']:.0f} "
        f"wall={wall:.1f}s rate={rate:.0f}/s violations={len(reported)} known={len(known_lines)} "
        f"budget_hit={info['budget_hit']} digest={merged['digest'][:12]}"
    )
    if zero:
        print(f"NOTE property={prop} probes that never fired this run: {zero}")
    for sig, path, detail in reported:
        print(f"  signature: {sig} :: {detail}")
        print(f"VIOLATION property={prop} replay={path}")
    if harness_problem and not reported:
        return 2
    return 1 if reported else 0
