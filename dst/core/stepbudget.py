"""Deterministic step budget: count interpreter events (function starts + backward jumps) of the
code under test and abort when a budget is exceeded.  Same input => same count, so a 'hang' is an
exactly replayable violation rather than a wall-clock timeout."""
from __future__ import annotations

import sys

TOOL_ID = 3
_mon = sys.monitoring


class BudgetExceeded(BaseException):
    """BaseException on purpose: `except Exception` in the code under test must not swallow it."""


class StepBudget:
    def __init__(self, budget: int) -> None:
        self.budget = budget
        self.count = 0
        self.exceeded = False

    def _tick(self, *args):
        self.count += 1
        if self.count > self.budget:
            self.exceeded = True
            _mon.set_events(TOOL_ID, 0)
            raise BudgetExceeded(self.count)

    def __enter__(self):
        try:
            _mon.use_tool_id(TOOL_ID, "verif-stepbudget")
        except ValueError:
            _mon.free_tool_id(TOOL_ID)
            _mon.use_tool_id(TOOL_ID, "verif-stepbudget")
        ev = _mon.events
        _mon.register_callback(TOOL_ID, ev.PY_START, self._tick)
        _mon.register_callback(TOOL_ID, ev.JUMP, self._tick)
        _mon.set_events(TOOL_ID, ev.PY_START | ev.JUMP)
        return self

    def __exit__(self, et, ev_, tb):
        _mon.set_events(TOOL_ID, 0)
        ev = _mon.events
        _mon.register_callback(TOOL_ID, ev.PY_START, None)
        _mon.register_callback(TOOL_ID, ev.JUMP, None)
        _mon.free_tool_id(TOOL_ID)
        return False
