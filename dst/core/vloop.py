"""Virtual-time asyncio event loop owned by the simulator.

Real CPython Task/Future/Event/Queue/wait/sleep run on it unchanged.  The loop differs from
BaseEventLoop only where nondeterminism would enter: the clock is a field, there is no I/O
selector (the clock jumps to the next timer), and between "due timers moved to the ready queue"
and "ready callbacks run" the simulator may splice externally arriving events (close(), a
connection loss, a clock jump) into the ready queue at a chosen position.  The relative order of
asyncio's own callbacks is never permuted (FIFO is an asyncio guarantee).
"""
from __future__ import annotations

import asyncio
import heapq
import threading
from asyncio import base_events, events

MAXIMUM_SELECT_TIMEOUT = 24 * 3600


class VLoop(base_events.BaseEventLoop):
    def __init__(self) -> None:
        super().__init__()
        self._vt = 0.0
        self.iteration = 0
        self.callbacks_run = 0
        self.quiescent = False
        self.inject_hook = None  # called as inject_hook(loop) after due timers joined the ready queue
        self.monitor_hook = None  # called as monitor_hook(loop) after every iteration
        self.exception_log: list = []
        self.set_exception_handler(self._on_exception)

    # -- seams -------------------------------------------------------------------------------
    def time(self) -> float:
        return self._vt

    def _process_events(self, event_list) -> None:  # no I/O
        pass

    def _write_to_self(self) -> None:  # no self-pipe
        pass

    def _on_exception(self, loop, context) -> None:
        exc = context.get("exception")
        self.exception_log.append(
            (self.iteration, context.get("message", ""), type(exc).__name__ if exc else None)
        )

    def advance(self, seconds: float) -> None:
        """Clock jump forward (fault injection); timers that became due fire on the next iteration."""
        if seconds > 0:
            self._vt += seconds

    def splice(self, position: int, callback, *args) -> None:
        """Insert a callback into the ready queue at `position` (clamped) - an external event."""
        handle = events.Handle(callback, args, self, None)
        position = max(0, min(position, len(self._ready)))
        self._ready.insert(position, handle)

    @property
    def ready_len(self) -> int:
        return len(self._ready)

    # -- one iteration, same structure as BaseEventLoop._run_once ------------------------------
    def _run_once(self) -> None:
        while self._scheduled and self._scheduled[0]._cancelled:
            self._timer_cancelled_count -= 1
            handle = heapq.heappop(self._scheduled)
            handle._scheduled = False

        if not self._ready and not self._stopping:
            if self._scheduled:
                when = self._scheduled[0]._when
                if when > self._vt:
                    self._vt = min(when, self._vt + MAXIMUM_SELECT_TIMEOUT)
            else:
                self.quiescent = True

        end_time = self._vt + self._clock_resolution
        while self._scheduled:
            handle = self._scheduled[0]
            if handle._when >= end_time:
                break
            handle = heapq.heappop(self._scheduled)
            handle._scheduled = False
            self._ready.append(handle)

        if self.inject_hook is not None:
            self.inject_hook(self)

        ntodo = len(self._ready)
        for _ in range(ntodo):
            handle = self._ready.popleft()
            if handle._cancelled:
                continue
            self.callbacks_run += 1
            handle._run()
        handle = None
        self.iteration += 1
        if self.monitor_hook is not None:
            self.monitor_hook(self)

    # -- driving ---------------------------------------------------------------------------------
    def has_work(self) -> bool:
        if self._ready:
            return True
        return any(not h._cancelled for h in self._scheduled)

    def drive(self, max_iterations: int, until=None, horizon: float | None = None) -> str:
        """Run iterations until `until()` is true, nothing is left to do, the next event lies
        beyond `horizon` (virtual seconds), or `max_iterations` more iterations were run."""
        self._thread_id = threading.get_ident()
        events._set_running_loop(self)
        stop_at = self.iteration + max_iterations
        try:
            while True:
                if until is not None and until():
                    return "until"
                if not self.has_work():
                    self.quiescent = True
                    return "quiescent"
                if horizon is not None and not self._ready:
                    nxt = min((h._when for h in self._scheduled if not h._cancelled), default=None)
                    if nxt is not None and nxt > horizon:
                        return "horizon"
                if self.iteration >= stop_at:
                    return "max_iterations"
                self._run_once()
        finally:
            self._thread_id = None
            events._set_running_loop(None)

    def shutdown(self) -> None:
        """Cancel whatever is left and close - no warnings about pending tasks."""
        try:
            events._set_running_loop(self)
            for task in asyncio.all_tasks(self):
                task.cancel()
            for _ in range(50):
                if not self._ready:
                    break
                self._run_once_quiet()
        except BaseException:  # pragma: no cover - teardown must never mask a result
            pass
        finally:
            events._set_running_loop(None)
            self._ready.clear()
            self._scheduled.clear()
            try:
                self.close()
            except Exception:
                pass

    def _run_once_quiet(self) -> None:
        hook, mon = self.inject_hook, self.monitor_hook
        self.inject_hook = self.monitor_hook = None
        try:
            self._run_once()
        finally:
            self.inject_hook, self.monitor_hook = hook, mon


def new_loop() -> VLoop:
    loop = VLoop()
    asyncio.set_event_loop(loop)
    return loop
