"""Minimal COSEM/A-XDR TLV walker for the tag subset that occurs in the captured push lists.
Used to re-emit genuine lists with PRNG register values ("template patching").  Independent of `han`."""
from __future__ import annotations

FIXED = {0x00: 0, 0x03: 1, 0x05: 4, 0x06: 4, 0x0F: 1, 0x10: 2, 0x11: 1, 0x12: 2, 0x14: 8, 0x15: 8, 0x16: 1, 0x0D: 1}
NUMERIC = {0x05, 0x06, 0x0F, 0x10, 0x11, 0x12, 0x14, 0x15}


class Leaf:
    __slots__ = ("tag", "pos", "length")

    def __init__(self, tag, pos, length):
        self.tag, self.pos, self.length = tag, pos, length  # pos = offset of the value octets


def walk(data: bytes, pos: int = 0, leaves=None, depth: int = 0):
    """Walk one element starting at pos; returns new pos. Raises ValueError on anything unknown."""
    if leaves is None:
        leaves = []
    if depth > 8 or pos >= len(data):
        raise ValueError("bad structure")
    tag = data[pos]
    pos += 1
    if tag in (0x01, 0x02):
        if pos >= len(data):
            raise ValueError("truncated")
        count = data[pos]
        pos += 1
        for _ in range(count):
            pos = walk(data, pos, leaves, depth + 1)
        return pos
    if tag in (0x09, 0x0A):
        if pos >= len(data):
            raise ValueError("truncated")
        n = data[pos]
        pos += 1
        if pos + n > len(data):
            raise ValueError("truncated")
        leaves.append(Leaf(tag, pos, n))
        return pos + n
    if tag in FIXED:
        n = FIXED[tag]
        if pos + n > len(data):
            raise ValueError("truncated")
        leaves.append(Leaf(tag, pos, n))
        return pos + n
    raise ValueError(f"unknown tag {tag:#x}")


def leaves_of(body: bytes):
    """All leaves of a notification body (which may be followed by nothing). None if not walkable."""
    out = []
    try:
        pos = 0
        while pos < len(body):
            pos = walk(body, pos, out)
        return out
    except (ValueError, IndexError):
        return None


def body_offset(frame: bytes):
    """Offset of the notification body inside an LLC PDU 'e6 e7 00 0f <invoke id 4> <date-time>'."""
    if len(frame) < 10 or frame[:4] != b"\xe6\xe7\x00\x0f":
        return None
    pos = 8
    t = frame[pos]
    if t == 0x00:
        return pos + 1
    if t == 0x09 and frame[pos + 1] == 0x0C:
        return pos + 14
    if t == 0x0C:
        return pos + 13
    return None


def patch(rng, data: bytes, start: int, p: float = 0.7) -> bytes:
    """Replace numeric leaves (and the digits of visible strings) after `start` by PRNG values of the
    same width: the structure stays genuine, the register values vary."""
    leaves = leaves_of(data[start:])
    if not leaves:
        return data
    out = bytearray(data)
    for lf in leaves:
        a = start + lf.pos
        if lf.tag in NUMERIC and rng.random() < p:
            r = rng.random()
            if r < 0.15:
                val = bytes(lf.length)
            elif r < 0.3:
                val = b"\xff" * lf.length
            elif r < 0.4:
                val = b"\x80" + bytes(lf.length - 1)
            else:
                val = rng.randbytes(lf.length)
            out[a : a + lf.length] = val
        elif lf.tag == 0x0A and rng.random() < 0.3:
            text = bytearray(rng.choice(b"0123456789ABCDEFGHJKLMNPQRSTUVWXYZ_") for _ in range(lf.length))
            if lf.length > 2 and rng.random() < 0.3:  # identification strings padded with blanks, as some meters send them
                text[0 if rng.random() < 0.5 else -1] = 0x20
            out[a : a + lf.length] = bytes(text)
    return bytes(out)
